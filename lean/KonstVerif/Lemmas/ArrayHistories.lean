import KonstVerif.Lemmas.ArrayBuilder
import KonstVerif.Lemmas.ArrayConsumer
import KonstVerif.Spec.ArrayStd
/-
  Refinement of whole histories (C11 builder_history, C15 ledgers): the `ArrayBuilder` state machine
  refines the bounded vector, the `ArrayConsumer` state machine refines the deque.
-/
namespace Konst.Histories
open Konst.ArrayBuilder (mapFrom mapFrom_length mapFrom_id)
open Konst.Spec.ArrayStd
variable {α : Type}


/-! ### `Clone::clone` with a panicking element `Clone` -/

/-- an element `Clone` that panics on call `j`, started at a call number past `j`: no panic -/
theorem cup_past (fresh : Nat → α → α) (j : Nat) (l : List α) :
    ∀ i, j < i → clonesUntilPanic (ArrayBuilder.panicAt fresh j) i l = (mapFrom fresh i l, false) := by
  induction l with
  | nil => intro i _; rfl
  | cons x r ih =>
    intro i hi
    have hne : i ≠ j := by omega
    simp [clonesUntilPanic, ArrayBuilder.panicAt, hne, ih (i + 1) (by omega), mapFrom]

theorem cup_upto (fresh : Nat → α → α) (j : Nat) (l : List α) :
    ∀ i, i ≤ j → clonesUntilPanic (ArrayBuilder.panicAt fresh j) i l =
      if j - i < l.length then (mapFrom fresh i (l.take (j - i)), true) else (mapFrom fresh i l, false) := by
  induction l with
  | nil => intro i _; rfl
  | cons x r ih =>
    intro i hi
    by_cases he : i = j
    · subst he
      simp [clonesUntilPanic, ArrayBuilder.panicAt, mapFrom]
    · have hlt : i + 1 ≤ j := by omega
      have hsub : j - i = (j - (i + 1)) + 1 := by omega
      simp only [clonesUntilPanic, ArrayBuilder.panicAt, he, if_false, ih (i + 1) hlt, List.length_cons]
      by_cases hj : j - (i + 1) < r.length
      · have : j - i < r.length + 1 := by omega
        simp [hj, hsub, mapFrom]
      · have : ¬ (j - i < r.length + 1) := by omega
        simp [hj, this, mapFrom]

/-- the independent reference of the histories is what the call-by-call description gives for an
    element `Clone` panicking on its `j`-th call -/
theorem cup_panicAt (fresh : Nat → α → α) (j : Nat) (l : List α) :
    clonesUntilPanic (ArrayBuilder.panicAt fresh j) 0 l = refClonePanic fresh j l := by
  rw [cup_upto fresh j l 0 (Nat.zero_le _)]
  simp [refClonePanic]

/-- without a panic every element was copied -/
theorem cup_length (fresh : Nat → α → Option α) (l : List α) :
    ∀ i, (clonesUntilPanic fresh i l).2 = false → (clonesUntilPanic fresh i l).1.length = l.length := by
  induction l with
  | nil => intro i _; rfl
  | cons x r ih =>
    intro i h
    cases hf : fresh i x with
    | none => simp [clonesUntilPanic, hf] at h
    | some v =>
      simp only [clonesUntilPanic, hf] at h ⊢
      simp [ih (i + 1) h]

theorem bld_cloneLoopP (fresh : Nat → α → Option α) (l : List α) :
    ∀ (i : Nat) (this : ArrayBuilder.Builder α) (done : List α), ArrayBuilder.Wf this done →
      done.length + l.length ≤ this.n →
      ((clonesUntilPanic fresh i l).2 = true →
        ArrayBuilder.cloneLoopP fresh l i this = .panicked (done ++ (clonesUntilPanic fresh i l).1)) ∧
      ((clonesUntilPanic fresh i l).2 = false →
        ∃ c, ArrayBuilder.cloneLoopP fresh l i this = .done c ∧
          ArrayBuilder.Wf c (done ++ (clonesUntilPanic fresh i l).1) ∧ c.n = this.n) := by
  induction l with
  | nil =>
    intro i this done h _
    exact ⟨by simp [clonesUntilPanic], fun _ => ⟨this, rfl, by simpa [clonesUntilPanic] using h, rfl⟩⟩
  | cons x r ih =>
    intro i this done h hlen
    simp only [List.length_cons] at hlen
    cases hf : fresh i x with
    | none =>
      simp [clonesUntilPanic, ArrayBuilder.cloneLoopP, hf, ArrayBuilder.wf_dropped h]
    | some v =>
      obtain ⟨b', hp, hw, hn⟩ := ArrayBuilder.wf_push_ok h v (by omega)
      obtain ⟨g1, g2⟩ := ih (i + 1) b' (done ++ [v]) hw (by simp; omega)
      simp only [clonesUntilPanic, hf, ArrayBuilder.cloneLoopP, hp]
      refine ⟨fun hp' => by simpa using g1 hp', fun hp' => ?_⟩
      obtain ⟨c, hc, hwc, hcn⟩ := g2 hp'
      exact ⟨c, hc, by simpa using hwc, by omega⟩

theorem bld_cloneP (fresh : Nat → α → Option α) {b : ArrayBuilder.Builder α} {acc : List α}
    (h : ArrayBuilder.Wf b acc) :
    ((clonesUntilPanic fresh 0 acc).2 = true →
      ArrayBuilder.cloneP fresh b = .panicked (clonesUntilPanic fresh 0 acc).1) ∧
    ((clonesUntilPanic fresh 0 acc).2 = false →
      ∃ c, ArrayBuilder.cloneP fresh b = .done c ∧ ArrayBuilder.Wf c (clonesUntilPanic fresh 0 acc).1 ∧
        c.n = b.n) := by
  have := bld_cloneLoopP fresh acc 0 (ArrayBuilder.new b.n) [] (ArrayBuilder.wf_new b.n)
    (by simpa [ArrayBuilder.new] using h.1)
  simpa [ArrayBuilder.cloneP, ArrayBuilder.wf_asSlice h, ArrayBuilder.new] using this

theorem cons_cloneLoopP (fresh : Nat → α → Option α) (l : List α) :
    ∀ (done : List α) (k : Nat),
      ((clonesUntilPanic fresh done.length l).2 = true →
        ArrayConsumer.cloneLoopP fresh l done.length
          ⟨done.length + l.length + k, done.map some ++ List.replicate (l.length + k) none, 0, l.length + k⟩ =
          .panicked (done ++ (clonesUntilPanic fresh done.length l).1)) ∧
      ((clonesUntilPanic fresh done.length l).2 = false →
        ∃ c, ArrayConsumer.cloneLoopP fresh l done.length
          ⟨done.length + l.length + k, done.map some ++ List.replicate (l.length + k) none, 0, l.length + k⟩ =
            .done c ∧
          c.n = done.length + l.length + k ∧ c.takenFront = 0 ∧ c.takenBack = k ∧
          c.slots = (done ++ (clonesUntilPanic fresh done.length l).1).map some ++ List.replicate k none) := by
  induction l with
  | nil =>
    intro done k
    exact ⟨by simp [clonesUntilPanic], fun _ => ⟨_, rfl, by simp, rfl, by simp, by simp [clonesUntilPanic]⟩⟩
  | cons x r ih =>
    intro done k
    cases hf : fresh done.length x with
    | none =>
      refine ⟨fun _ => ?_, by simp [clonesUntilPanic, hf]⟩
      have hsl : ArrayConsumer.sliceLen (⟨done.length + (x :: r).length + k,
          done.map some ++ List.replicate ((x :: r).length + k) none, 0, (x :: r).length + k⟩ :
            ArrayConsumer.Consumer α) = done.length := by
        simp only [ArrayConsumer.sliceLen, List.length_cons]; omega
      simp only [clonesUntilPanic, hf, ArrayConsumer.cloneLoopP, ArrayConsumer.dropped, hsl,
        List.drop_zero, List.append_nil]
      rw [List.take_left' (by simp), ArrayBuilder.readInit_map_some]
    | some v =>
      obtain ⟨g1, g2⟩ := ih (done ++ [v]) k
      have hstate : ({ (⟨done.length + (x :: r).length + k,
            done.map some ++ List.replicate ((x :: r).length + k) none, 0, (x :: r).length + k⟩ :
              ArrayConsumer.Consumer α) with
            slots := (done.map some ++ List.replicate ((x :: r).length + k) none).set done.length (some v),
            takenBack := (x :: r).length + k - 1 } : ArrayConsumer.Consumer α) =
          ⟨(done ++ [v]).length + r.length + k,
            (done ++ [v]).map some ++ List.replicate (r.length + k) none, 0, r.length + k⟩ := by
        simp only [List.length_cons, List.length_append, List.length_nil]
        congr 1
        · omega
        · have : r.length + 1 + k = (r.length + k) + 1 := by omega
          rw [this, List.replicate_succ, List.set_append_right _ _ (by simp)]
          simp
        · omega
      simp only [clonesUntilPanic, hf, ArrayConsumer.cloneLoopP]
      rw [hstate]
      have hlen : (done ++ [v]).length = done.length + 1 := by simp
      rw [← hlen]
      refine ⟨fun hp' => by simpa using g1 hp', fun hp' => ?_⟩
      obtain ⟨c, hc, h1, h2, h3, h4⟩ := g2 hp'
      exact ⟨c, hc, by simp at h1 ⊢; omega, h2, h3, by simpa using h4⟩

theorem cons_cloneP (fresh : Nat → α → Option α) {c : ArrayConsumer.Consumer α} {rem : List α}
    (h : ArrayConsumer.Wf c rem) :
    ((clonesUntilPanic fresh 0 rem).2 = true →
      ArrayConsumer.cloneP fresh c = .panicked (clonesUntilPanic fresh 0 rem).1) ∧
    ((clonesUntilPanic fresh 0 rem).2 = false →
      ∃ c', ArrayConsumer.cloneP fresh c = .done c' ∧
        ArrayConsumer.Wf c' (clonesUntilPanic fresh 0 rem).1 ∧ c'.n = c.n) := by
  have ha : ArrayConsumer.asSlice c = some rem := ArrayConsumer.wf_asSlice h
  have hl := ArrayConsumer.wf_sliceLen h
  obtain ⟨pre, post, hs, hp, hq, hn⟩ := h
  have hk : c.n = rem.length + (pre.length + post.length) := by omega
  obtain ⟨g1, g2⟩ := cons_cloneLoopP fresh rem [] (pre.length + post.length)
  simp only [List.length_nil, Nat.zero_add, List.map_nil, List.nil_append] at g1 g2
  simp only [ArrayConsumer.cloneP, ha, hk]
  refine ⟨g1, fun hp' => ?_⟩
  obtain ⟨c', hc, h1, h2, h3, h4⟩ := g2 hp'
  refine ⟨c', hc, ⟨[], List.replicate (pre.length + post.length) none, by simpa using h4, by simp [h2],
    by simp [h3], ?_⟩, by omega⟩
  have hcl := cup_length fresh rem 0 hp'
  simp [hcl]; omega

/-! ### builder -/

theorem bld_step (fresh : Nat → α → α) {b : ArrayBuilder.Builder α} {acc : List α} (k : Nat)
    (h : ArrayBuilder.Wf b acc) (op : ArrayBuilder.Op α) :
    ArrayBuilder.Wf (ArrayBuilder.step fresh (b, k) op).1.1 (bvStep fresh b.n (acc, k) op).1.1 ∧
    (ArrayBuilder.step fresh (b, k) op).1.1.n = b.n ∧
    (ArrayBuilder.step fresh (b, k) op).1.2 = (bvStep fresh b.n (acc, k) op).1.2 ∧
    (ArrayBuilder.step fresh (b, k) op).2 = (bvStep fresh b.n (acc, k) op).2 := by
  cases op with
  | push v =>
    by_cases hlt : acc.length < b.n
    · obtain ⟨b', hp, hw, hn⟩ := ArrayBuilder.wf_push_ok h v hlt
      simp [ArrayBuilder.step, bvStep, bvPush, hp, hlt, hw, hn]
    · have hfull : acc.length = b.n := by have := h.1; omega
      simp [ArrayBuilder.step, bvStep, bvPush, ArrayBuilder.wf_push_full h v hfull, hlt, h]
  | clone =>
    obtain ⟨c, hc, hw, hn⟩ := ArrayBuilder.wf_clone (fun i => fresh (k + i)) h
    simp [ArrayBuilder.step, bvStep, hc, ArrayBuilder.wf_dropped h, hw, hn, h.2.1]
  | cloneDrop =>
    obtain ⟨c, hc, hw, hn⟩ := ArrayBuilder.wf_clone (fun i => fresh (k + i)) h
    simp [ArrayBuilder.step, bvStep, hc, ArrayBuilder.wf_dropped hw, h, h.2.1]
  | clonePanic j =>
    have hcp := cup_panicAt (fun i => fresh (k + i)) j acc
    obtain ⟨g1, g2⟩ := bld_cloneP (ArrayBuilder.panicAt (fun i => fresh (k + i)) j) h
    rw [hcp] at g1 g2
    by_cases hj : j < acc.length
    · have hp := g1 (by simp [refClonePanic, hj])
      simp only [refClonePanic, hj, if_true] at hp
      simp [ArrayBuilder.step, bvStep, hp, refClonePanic, hj, h]
    · obtain ⟨c, hc, hw, hn⟩ := g2 (by simp [refClonePanic, hj])
      simp only [refClonePanic, hj, if_false] at hw
      simp [ArrayBuilder.step, bvStep, hc, ArrayBuilder.wf_dropped hw, refClonePanic, hj, h, h.2.1]
  | cloneFrom vs =>
    obtain ⟨t1, t2, t3⟩ := ArrayBuilder.wf_pushAll_new (α := α) b.n vs
    obtain ⟨c, hc, hw, hn⟩ := ArrayBuilder.wf_cloneFrom (fun i => fresh (k + vs.length + i)) h t1
    simp [ArrayBuilder.step, bvStep, bvAccepted, hc, ArrayBuilder.wf_dropped t1, hw, hn, t2, t3, t1.2.1]
  | cloneInto vs =>
    obtain ⟨t1, t2, t3⟩ := ArrayBuilder.wf_pushAll_new (α := α) b.n vs
    obtain ⟨c, hc, hw, hn⟩ := ArrayBuilder.wf_cloneFrom (fun i => fresh (k + vs.length + i)) t1 h
    simp [ArrayBuilder.step, bvStep, bvAccepted, hc, ArrayBuilder.wf_dropped h, hw, hn, t2, h.2.1]

theorem bld_run (fresh : Nat → α → α) (ops : List (ArrayBuilder.Op α)) :
    ∀ (b : ArrayBuilder.Builder α) (acc : List α) (k : Nat), ArrayBuilder.Wf b acc →
      ArrayBuilder.Wf (ArrayBuilder.run fresh (b, k) ops).1.1 (bvRun fresh b.n (acc, k) ops).1.1 ∧
      (ArrayBuilder.run fresh (b, k) ops).1.1.n = b.n ∧
      (ArrayBuilder.run fresh (b, k) ops).1.2 = (bvRun fresh b.n (acc, k) ops).1.2 ∧
      (ArrayBuilder.run fresh (b, k) ops).2 = (bvRun fresh b.n (acc, k) ops).2 := by
  induction ops with
  | nil => intro b acc k h; exact ⟨h, rfl, rfl, rfl⟩
  | cons op r ih =>
    intro b acc k h
    obtain ⟨h1, h2, h3, h4⟩ := bld_step fresh k h op
    have hst : ArrayBuilder.step fresh (b, k) op =
        (((ArrayBuilder.step fresh (b, k) op).1.1, (bvStep fresh b.n (acc, k) op).1.2),
          (bvStep fresh b.n (acc, k) op).2) := by
      rw [← h3, ← h4]
    have hsp : (bvStep fresh b.n (acc, k) op).1 =
        ((bvStep fresh b.n (acc, k) op).1.1, (bvStep fresh b.n (acc, k) op).1.2) := rfl
    obtain ⟨g1, g2, g3, g4⟩ := ih _ _ (bvStep fresh b.n (acc, k) op).1.2 h1
    simp only [ArrayBuilder.run, bvRun]
    rw [hst]
    simp only []
    rw [h2] at g1 g2 g3 g4
    rw [hsp]
    exact ⟨g1, g2, g3, by rw [g4]⟩

/-- the pushes that end up in the final builder either extend the initial ones, or (after a
    `clone_from` from a second builder) do not depend on them -/
theorem pushesFrom_cases (ops : List (ArrayBuilder.Op α)) :
    (∀ a, pushesFrom a ops = a ++ pushesFrom [] ops) ∨ (∀ a, pushesFrom a ops = pushesFrom [] ops) := by
  induction ops with
  | nil => left; intro a; simp [pushesFrom]
  | cons op r ih =>
    cases op with
    | push v =>
      rcases ih with ih | ih
      · left; intro a
        simp only [pushesFrom, List.nil_append]
        rw [ih (a ++ [v]), ih [v]]; simp
      · right; intro a
        simp only [pushesFrom, List.nil_append]
        rw [ih (a ++ [v]), ih [v]]
    | cloneFrom vs => right; intro a; simp [pushesFrom]
    | clone => simpa only [pushesFrom] using ih
    | cloneDrop => simpa only [pushesFrom] using ih
    | clonePanic j => simpa only [pushesFrom] using ih
    | cloneInto vs => simpa only [pushesFrom] using ih

/-- with value-preserving clones the bounded vector holds the first `n` of the pushes that reach it -/
theorem bvRun_values (n : Nat) (ops : List (ArrayBuilder.Op α)) :
    ∀ (acc : List α) (k : Nat), acc.length ≤ n →
      (bvRun (fun _ x => x) n (acc, k) ops).1.1 = (pushesFrom acc ops).take n := by
  induction ops with
  | nil => intro acc k h; simp [bvRun, pushesFrom, List.take_of_length_le h]
  | cons op r ih =>
    intro acc k h
    cases op with
    | push v =>
      by_cases hlt : acc.length < n
      · simp only [bvRun, bvStep, bvPush, hlt, if_true, pushesFrom]
        rw [ih (acc ++ [v]) (k + 1) (by simp; omega)]
      · have : acc.length = n := by omega
        simp only [bvRun, bvStep, bvPush, hlt, if_false, pushesFrom]
        rw [ih acc (k + 1) h]
        rcases pushesFrom_cases r with hc | hc
        · rw [hc acc, hc (acc ++ [v]), List.append_assoc,
            List.take_append_of_le_length (by omega), List.take_append_of_le_length (by omega)]
        · rw [hc acc, hc (acc ++ [v])]
    | clone =>
      simp only [bvRun, bvStep, pushesFrom, mapFrom_id]
      exact ih acc _ h
    | cloneDrop =>
      simp only [bvRun, bvStep, pushesFrom]
      exact ih acc _ h
    | clonePanic j =>
      simp only [bvRun, bvStep, pushesFrom]
      exact ih acc _ h
    | cloneFrom vs =>
      simp only [bvRun, bvStep, pushesFrom, mapFrom_id, bvAccepted]
      rw [ih (vs.take n) _ (by simp; omega)]
      rcases pushesFrom_cases r with hc | hc
      · rw [hc (vs.take n), hc vs]
        by_cases hl : vs.length ≤ n
        · rw [List.take_of_length_le hl]
        · rw [List.take_append_of_le_length (by simp; omega), List.take_take, Nat.min_self,
            List.take_append_of_le_length (by omega)]
      · rw [hc (vs.take n), hc vs]
    | cloneInto vs =>
      simp only [bvRun, bvStep, pushesFrom, mapFrom_id]
      exact ih acc _ h

/-! ### consumer -/

theorem cons_step (fresh : Nat → α → α) {c : ArrayConsumer.Consumer α} {rem : List α} (k : Nat)
    (h : ArrayConsumer.Wf c rem) (op : ArrayConsumer.Op) :
    ArrayConsumer.Wf (ArrayConsumer.step fresh (c, k) op).1.1 (dqStep fresh (rem, k) op).1.1 ∧
    (ArrayConsumer.step fresh (c, k) op).1.2 = (dqStep fresh (rem, k) op).1.2 ∧
    (ArrayConsumer.step fresh (c, k) op).2 = (dqStep fresh (rem, k) op).2 := by
  cases op with
  | next =>
    cases rem with
    | nil => simp [ArrayConsumer.step, dqStep, dqNext, ArrayConsumer.wf_next_nil h, h]
    | cons x r =>
      obtain ⟨hn, hw⟩ := ArrayConsumer.wf_next_cons h
      simp [ArrayConsumer.step, dqStep, dqNext, hn, hw]
  | nextBack =>
    rcases List.eq_nil_or_concat rem with rfl | ⟨r, x, rfl⟩
    · simp [ArrayConsumer.step, dqStep, dqNextBack, ArrayConsumer.wf_nextBack_nil h, h]
    · have h' : ArrayConsumer.Wf c (r ++ [x]) := by simpa using h
      obtain ⟨hn, hw⟩ := ArrayConsumer.wf_nextBack_snoc h'
      simp [ArrayConsumer.step, dqStep, dqNextBack, hn, hw]
  | clone =>
    obtain ⟨c', hc, hw, _⟩ := ArrayConsumer.wf_clone (fun i => fresh (k + i)) h
    simp [ArrayConsumer.step, dqStep, hc, ArrayConsumer.wf_dropped h, hw, ArrayConsumer.wf_sliceLen h]
  | cloneDrop =>
    obtain ⟨c', hc, hw, _⟩ := ArrayConsumer.wf_clone (fun i => fresh (k + i)) h
    simp [ArrayConsumer.step, dqStep, hc, ArrayConsumer.wf_dropped hw, h, ArrayConsumer.wf_sliceLen h]
  | clonePanic j =>
    have hcp := cup_panicAt (fun i => fresh (k + i)) j rem
    obtain ⟨g1, g2⟩ := cons_cloneP (ArrayBuilder.panicAt (fun i => fresh (k + i)) j) h
    rw [hcp] at g1 g2
    by_cases hj : j < rem.length
    · have hp := g1 (by simp [refClonePanic, hj])
      simp only [refClonePanic, hj, if_true] at hp
      simp [ArrayConsumer.step, dqStep, hp, refClonePanic, hj, h]
    · obtain ⟨c', hc, hw, hn⟩ := g2 (by simp [refClonePanic, hj])
      simp only [refClonePanic, hj, if_false] at hw
      simp [ArrayConsumer.step, dqStep, hc, ArrayConsumer.wf_dropped hw, refClonePanic, hj, h,
        ArrayConsumer.wf_sliceLen h]

theorem cons_run (fresh : Nat → α → α) (ops : List ArrayConsumer.Op) :
    ∀ (c : ArrayConsumer.Consumer α) (rem : List α) (k : Nat), ArrayConsumer.Wf c rem →
      ArrayConsumer.Wf (ArrayConsumer.run fresh (c, k) ops).1.1 (dqRun fresh (rem, k) ops).1.1 ∧
      (ArrayConsumer.run fresh (c, k) ops).1.2 = (dqRun fresh (rem, k) ops).1.2 ∧
      (ArrayConsumer.run fresh (c, k) ops).2 = (dqRun fresh (rem, k) ops).2 := by
  induction ops with
  | nil => intro c rem k h; exact ⟨h, rfl, rfl⟩
  | cons op r ih =>
    intro c rem k h
    obtain ⟨h1, h3, h4⟩ := cons_step fresh k h op
    have hst : ArrayConsumer.step fresh (c, k) op =
        (((ArrayConsumer.step fresh (c, k) op).1.1, (dqStep fresh (rem, k) op).1.2),
          (dqStep fresh (rem, k) op).2) := by
      rw [← h3, ← h4]
    have hsp : (dqStep fresh (rem, k) op).1 =
        ((dqStep fresh (rem, k) op).1.1, (dqStep fresh (rem, k) op).1.2) := rfl
    obtain ⟨g1, g3, g4⟩ := ih _ _ (dqStep fresh (rem, k) op).1.2 h1
    simp only [ArrayConsumer.run, dqRun]
    rw [hst]
    simp only []
    rw [hsp]
    exact ⟨g1, g3, by rw [g4]⟩

theorem cons_finish {c : ArrayConsumer.Consumer α} {rem : List α} (h : ArrayConsumer.Wf c rem)
    (e : ArrayConsumer.End) : ArrayConsumer.finish c e = some (dqFinish rem e) := by
  cases e with
  | drop => simp [ArrayConsumer.finish, dqFinish, ArrayConsumer.wf_dropped h]
  | forget => simp [ArrayConsumer.finish, dqFinish, ArrayConsumer.wf_asSlice h]
  | assertEmpty =>
    cases rem with
    | nil => simp [ArrayConsumer.finish, dqFinish, ArrayConsumer.isEmpty, ArrayConsumer.wf_sliceLen h]
    | cons x r =>
      simp [ArrayConsumer.finish, dqFinish, ArrayConsumer.isEmpty, ArrayConsumer.wf_sliceLen h,
        ArrayConsumer.wf_dropped h]

/-- clone-free deque history: what was handed out from the front, what is left, and what was handed
    out from the back partition the initial content in order -/
theorem dq_ledger (fresh : Nat → α → α) (ops : List ArrayConsumer.Op)
    (hops : ∀ op ∈ ops, op = .next ∨ op = .nextBack) :
    ∀ (rem : List α) (k : Nat),
      fronts (dqRun fresh (rem, k) ops).2 ++ (dqRun fresh (rem, k) ops).1.1 ++
        (backs (dqRun fresh (rem, k) ops).2).reverse = rem := by
  induction ops with
  | nil => intro rem k; simp [dqRun, fronts, backs]
  | cons op r ih =>
    intro rem k
    have hr : ∀ op ∈ r, op = .next ∨ op = .nextBack := fun o ho => hops o (List.mem_cons_of_mem _ ho)
    rcases hops op List.mem_cons_self with rfl | rfl
    · cases rem with
      | nil =>
        simp only [dqRun, dqStep, dqNext, fronts, backs]
        exact ih hr [] k
      | cons x rest =>
        simp only [dqRun, dqStep, dqNext, fronts, backs]
        have := ih hr rest k
        simp only [List.cons_append, this]
    · rcases List.eq_nil_or_concat rem with rfl | ⟨rest, x, rfl⟩
      · simp only [dqRun, dqStep, dqNextBack, List.getLast?_nil, fronts, backs]
        exact ih hr [] k
      · simp only [List.concat_eq_append, dqRun, dqStep, dqNextBack, List.getLast?_append, List.getLast?_singleton,
          Option.some_or, List.dropLast_concat, fronts, backs, List.reverse_cons]
        have := ih hr rest k
        rw [← List.append_assoc, this]

end Konst.Histories
