import KonstVerif.Model.OptRes
import KonstVerif.Spec.OptRes
/-
  Helper lemmas for C19: the tuple walker of `try_rebind!`/`rebind_if_ok!`.
-/
namespace Konst.Lemmas.OptRes
open Konst Konst.OptRes

/-- the statements one expects for patterns `pats` whose head sits at tuple index `i`:
    per pattern (an optional `let _: ty = var;` for a typed place, then) `lhs = var.i` -/
def expectedStmts (i : Nat) : List PatKind → List Stmt
  | [] => []
  | p :: rem =>
    (if p = .typedPlace then [Stmt.assertTy i] else []) ++
      Stmt.assign ⟨i, p⟩ (.field (.idx i)) :: expectedStmts (i + 1) rem

/-- the field tokens `i i+1 … i+m-1` -/
def fieldsFrom (i m : Nat) : List Tok := (List.range' i m).map Tok.idx

theorem fieldsFrom_succ (i m : Nat) : fieldsFrom i (m + 1) = Tok.idx i :: fieldsFrom (i + 1) m := by
  simp [fieldsFrom, List.range'_succ]

theorem fields0_eq : fields0 = fieldsFrom 0 6 := by decide

/-- the walker, started anywhere but in the "single pattern at index 0" situation, emits exactly one
    field assignment per pattern, in order, as long as field tokens are left -/
theorem assignTuple_fieldsFrom (pats : List PatKind) :
    ∀ (i m : Nat), pats ≠ [] → pats.length ≤ m → (1 ≤ i ∨ 2 ≤ pats.length) →
      assignTuple (fieldsFrom i m) i pats = some (expectedStmts i pats) := by
  induction pats with
  | nil => intro i m h; exact absurd rfl h
  | cons p rem ih =>
    intro i m _ hlen hstart
    cases m with
    | zero => simp at hlen
    | succ m =>
      rw [fieldsFrom_succ]
      cases rem with
      | nil =>
        have hi : 1 ≤ i := by
          cases hstart with
          | inl h => exact h
          | inr h => simp at h
        cases i with
        | zero => omega
        | succ j => simp [assignTuple, expectedStmts]
      | cons q rem' =>
        have hrec := ih (i + 1) m (by simp) (by simpa using hlen) (Or.inl (by omega))
        cases i <;> simp [assignTuple, hrec, expectedStmts]

/-- more patterns than field tokens: no macro arm matches -/
theorem assignTuple_too_many (pats : List PatKind) :
    ∀ (fields : List Tok) (i : Nat), fields.length < pats.length → assignTuple fields i pats = none := by
  induction pats with
  | nil => intro fields i h; simp at h
  | cons p rem ih =>
    intro fields i h
    cases fields with
    | nil =>
      cases rem <;> simp [assignTuple]
    | cons f rf =>
      cases rem with
      | nil => simp at h
      | cons q rem' =>
        have hrec := ih rf (i + 1) (by simpa using h)
        cases f with
        | idx k => cases k <;> simp [assignTuple, hrec]
        | colon => simp [assignTuple, hrec]
        | ttkw => simp [assignTuple, hrec]

theorem expectedStmts_cons (i : Nat) (p : PatKind) (rem : List PatKind) :
    expectedStmts i (p :: rem) =
      (if p = .typedPlace then [Stmt.assertTy i] else []) ++
        Stmt.assign ⟨i, p⟩ (.field (.idx i)) :: expectedStmts (i + 1) rem := rfl

/-- every expected statement type-checks against an `n`-tuple that has a component for each pattern
    (typed places: if their annotation is right) -/
theorem expectedStmts_ok (n : Nat) (annot : Bool) (pats : List PatKind) :
    ∀ i, 2 ≤ n → i + pats.length ≤ n → (PatKind.typedPlace ∉ pats ∨ annot = true) →
      (expectedStmts i pats).all (stmtOk n annot) = true := by
  induction pats with
  | nil => intro i _ _ _; rfl
  | cons p rem ih =>
    intro i hn hlen hty
    have hrec := ih (i + 1) hn (by simp at hlen; omega) (by
      cases hty with
      | inl h => exact Or.inl (fun hm => h (List.mem_cons_of_mem _ hm))
      | inr h => exact Or.inr h)
    have hi : i < n := by simp at hlen; omega
    have hassign : stmtOk n annot (Stmt.assign ⟨i, p⟩ (.field (.idx i))) = true := by
      simp [stmtOk, hn, hi]
    rw [expectedStmts_cons, List.all_append, List.all_cons, hrec, hassign]
    by_cases hp : p = .typedPlace
    · have ha : annot = true := by
        cases hty with
        | inl h => exact absurd (by simp [hp]) h
        | inr h => exact h
      simp [hp, stmtOk, ha]
    · simp [hp]

theorem exec_append_assert (vs : List Int) (b : Bool) (i : Nat) (rest : List Stmt) :
    exec vs ((if b then [Stmt.assertTy i] else []) ++ rest) = exec vs rest := by
  cases b <;> simp [exec]

/-- running the expected statements writes component `i + j` to the `j`-th pattern -/
theorem exec_expectedStmts (vs : List Int) (pats : List PatKind) :
    ∀ i, 2 ≤ vs.length → i + pats.length ≤ vs.length →
      exec vs (expectedStmts i pats) =
        some ((pats.zipIdx i).map fun (p, j) => ((⟨j, p⟩ : Lhs), Val.scalar (vs.getD j 0))) := by
  induction pats with
  | nil => intro i _ _; rfl
  | cons p rem ih =>
    intro i hn hlen
    have hrec := ih (i + 1) hn (by simp at hlen; omega)
    have hi : i < vs.length := by simp at hlen; omega
    have hget : vs[i]? = some (vs.getD i 0) := by
      rw [List.getD_eq_getElem?_getD, List.getElem?_eq_getElem hi]; rfl
    have hrhs : evalRhs vs (.field (.idx i)) = some (Val.scalar (vs.getD i 0)) := by
      simp only [evalRhs, hn, if_true, hget, Option.map_some]
    rw [expectedStmts_cons]
    have hb : (if p = PatKind.typedPlace then [Stmt.assertTy i] else []) =
        (if decide (p = PatKind.typedPlace) then [Stmt.assertTy i] else []) := by
      by_cases hp : p = .typedPlace <;> simp [hp]
    rw [hb, exec_append_assert]
    simp only [exec, hrhs, hrec, List.zipIdx_cons, List.map_cons]

/-- the assignment targets of a pattern list, in order -/
def targets (pats : List PatKind) : List Lhs := pats.zipIdx.map fun (p, j) => ⟨j, p⟩

/-- pairing targets with the components of the payload by position = indexing the payload -/
theorem zip_targets (vs : List Int) (pats : List PatKind) :
    ∀ i, i + pats.length = vs.length →
      ((pats.zipIdx i).map fun (p, j) => ((⟨j, p⟩ : Lhs))).zip ((vs.drop i).map Val.scalar) =
        (pats.zipIdx i).map fun (p, j) => ((⟨j, p⟩ : Lhs), Val.scalar (vs.getD j 0)) := by
  induction pats with
  | nil => intro i _; rfl
  | cons p rem ih =>
    intro i hlen
    have hi : i < vs.length := by simp at hlen; omega
    have hrec := ih (i + 1) (by simp at hlen; omega)
    have hdrop : vs.drop i = vs.getD i 0 :: vs.drop (i + 1) := by
      rw [List.drop_eq_getElem_cons hi, List.getD_eq_getElem?_getD, List.getElem?_eq_getElem hi]; rfl
    rw [hdrop]
    simp only [List.zipIdx_cons, List.map_cons, List.zip_cons_cons, hrec]

/-- the expected statements assign the user patterns in list order: positions `i, i+1, …` -/
theorem assignOrder_expectedStmts (pats : List PatKind) :
    ∀ i, assignOrder (expectedStmts i pats) = List.range' i pats.length := by
  induction pats with
  | nil => intro i; rfl
  | cons p rem ih =>
    intro i
    rw [expectedStmts_cons]
    by_cases hp : p = .typedPlace <;> simp [hp, assignOrder, ih (i + 1), List.range'_succ]

/-- applying the writes `target_i := component_i` one after the other, in list order, is the
    statement sequence `p0 = t.0; p1 = t.1; …` -/
theorem runWrites_zip {σ : Type} (write : σ → Lhs → Val → σ) (ts : List Lhs) :
    ∀ (s : σ) (vs : List Int),
      runWrites write s (ts.zip (vs.map Val.scalar)) =
        Spec.OptRes.assignInOrder write Val.scalar s ts vs := by
  induction ts with
  | nil => intro s vs; simp [runWrites, Spec.OptRes.assignInOrder]
  | cons t ts ih =>
    intro s vs
    cases vs with
    | nil => simp [runWrites, Spec.OptRes.assignInOrder]
    | cons v vs =>
      have := ih (write s t (Val.scalar v)) vs
      simpa [runWrites, Spec.OptRes.assignInOrder] using this

theorem runWrites_destructure {σ : Type} (write : σ → Lhs → Val → σ) (s : σ) (ts : List Lhs)
    (vs : List Int) :
    runWrites write s (Spec.OptRes.destructure payloadVal Val.scalar ts vs) =
      Spec.OptRes.assignSeq write payloadVal Val.scalar s ts vs := by
  match ts with
  | [] => simp [Spec.OptRes.destructure, Spec.OptRes.assignSeq, runWrites, Spec.OptRes.assignInOrder]
  | [t] => simp [Spec.OptRes.destructure, Spec.OptRes.assignSeq, runWrites]
  | t :: t' :: rest =>
    simp only [Spec.OptRes.destructure, Spec.OptRes.assignSeq]
    exact runWrites_zip write (t :: t' :: rest) s vs

end Konst.Lemmas.OptRes
