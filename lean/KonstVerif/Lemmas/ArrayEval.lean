import KonstVerif.Model.ArrayEval
import KonstVerif.Lemmas.ArrayMacros
/-
  Lemmas about the call-recording loop `mapLoopL` (C11, part 2).
-/
namespace Konst.ArrayEval
open Konst.ArrayMacros
open Konst.ArrayBuilder (readInit readInit_none_mem)
variable {α β : Type}

/-- when `$array.len()` evaluates to the real length, `mapLoopL` is `mapLoop` plus the record of the calls -/
theorem mapLoopL_res (len : Nat) (get : Nat → Option α) (c : Nat → α → Outcome β) :
    ∀ (fuel t i : Nat) (out : List (Option β)) (calls : List (Nat × α)), out.length = len →
      (mapLoopL len get c fuel t i out calls).res = mapLoop len get c fuel t i out := by
  intro fuel
  induction fuel with
  | zero => intro t i out calls _; simp [mapLoopL, mapLoop]
  | succ f ih =>
    intro t i out calls ho
    by_cases hil : i < len
    · simp only [mapLoopL, mapLoop, hil, if_true]
      cases hg : get i with
      | none => simp
      | some a =>
        simp only []
        cases hc : c t a with
        | value v =>
          have hio : i < out.length := by omega
          simp only [hio, if_true]
          exact ih (t + 1) (i + 1) (out.set i (some v)) _ (by simp [ho])
        | cont => exact ih (t + 1) i out _ ho
        | brk => simp
        | ret => simp
        | panic => simp
    · simp [mapLoopL, mapLoop, hil]

/-- the elements `get` yields for the indices `i, i+1, .., i+k-1` -/
def fetched (get : Nat → Option α) (i k : Nat) : List (Nat × α) :=
  (List.range' i k).filterMap fun j => (get j).map fun a => (j, a)

theorem fetched_succ {get : Nat → Option α} {i k : Nat} {a : α} (h : get i = some a) :
    fetched get i (k + 1) = (i, a) :: fetched get (i + 1) k := by
  simp [fetched, List.range'_succ, h]

/-- all-values run with `lenSeen ≤ N`: the closure is called once for each of the indices `i .. lenSeen-1`, in
    this order, with the element at that index; exactly those slots are written; the result is the array iff
    `lenSeen = N` and `assume_init` of an array with unwritten slots otherwise -/
theorem mapLoopL_value (lenSeen n : Nat) (get : Nat → Option α) (f : α → β) (c : Nat → α → Outcome β)
    (hc : ∀ t a, c t a = .value (f a)) (hget : ∀ j, j < lenSeen → (get j).isSome) (hle : lenSeen ≤ n) :
    ∀ (k i fuel : Nat) (done : List β) (calls : List (Nat × α)), lenSeen - i = k → i ≤ lenSeen →
      done.length = i → k < fuel →
      mapLoopL lenSeen get c fuel i i (outOf n done) calls =
        ⟨if lenSeen = n then .array (done ++ (fetched get i k).map fun p => f p.2) else .ub,
         outOf n (done ++ (fetched get i k).map fun p => f p.2),
         calls ++ fetched get i k⟩ := by
  intro k
  induction k with
  | zero =>
    intro i fuel done calls hk hi hd hf
    have hil : i = lenSeen := by omega
    obtain ⟨fu, rfl⟩ : ∃ fu, fuel = fu + 1 := ⟨fuel - 1, by omega⟩
    subst hil
    by_cases hn : i = n
    · subst hn
      simp [mapLoopL, afterLoop, outOf_full hd, fetched]
    · have hlt : done.length < n := by omega
      have hub : assumeInit (outOf n done) = (.ub : Res β) := by
        unfold assumeInit outOf
        have : n - done.length = (n - done.length - 1) + 1 := by omega
        rw [this, List.replicate_succ, readInit_none_mem]
      simp [mapLoopL, afterLoop, hub, hn, fetched]
  | succ k ih =>
    intro i fuel done calls hk hi hd hf
    have hil : i < lenSeen := by omega
    obtain ⟨fu, rfl⟩ : ∃ fu, fuel = fu + 1 := ⟨fuel - 1, by omega⟩
    obtain ⟨a, hg⟩ := Option.isSome_iff_exists.mp (hget i hil)
    have hio : i < (outOf n done).length := by
      rw [outOf_length (by omega)]; omega
    simp only [mapLoopL, hil, if_true, hg, hc, hio]
    rw [← hd, outOf_set (f a) (by omega), hd]
    rw [ih (i + 1) fu (done ++ [f a]) (calls ++ [(i, a)]) (by omega) (by omega) (by simp [hd]) (by omega)]
    rw [fetched_succ hg]
    simp

/-- `lenSeen > N` cannot produce an array either: the run ends in a panic (`array[i]` or `out[i]` out of bounds) or
    with whatever the closure does first; shown for all-value closures over a total `get` (`from_fn!`) -/
theorem mapLoopL_long_panic (lenSeen n : Nat) (f : Nat → β) (c : Nat → Nat → Outcome β)
    (hc : ∀ t a, c t a = .value (f a)) (hlt : n < lenSeen) :
    ∀ (k i fuel : Nat) (done : List β) (calls : List (Nat × Nat)), n - i = k → i ≤ n →
      done.length = i → k < fuel →
      (mapLoopL lenSeen (fun j => some j) c fuel i i (outOf n done) calls).res = .panic := by
  intro k
  induction k with
  | zero =>
    intro i fuel done calls hk hi hd hf
    have hin : i = n := by omega
    obtain ⟨fu, rfl⟩ : ∃ fu, fuel = fu + 1 := ⟨fuel - 1, by omega⟩
    subst hin
    have hio : ¬ i < (outOf i done).length := by rw [outOf_length (by omega)]; omega
    simp [mapLoopL, hlt, hc, hio]
  | succ k ih =>
    intro i fuel done calls hk hi hd hf
    obtain ⟨fu, rfl⟩ : ∃ fu, fuel = fu + 1 := ⟨fuel - 1, by omega⟩
    subst hd
    have hil : done.length < lenSeen := by omega
    have hio : done.length < (outOf n done).length := by rw [outOf_length (by omega)]; omega
    simp only [mapLoopL, hil, if_true, hc, hio]
    rw [outOf_set (f done.length) (by omega)]
    exact ih (done.length + 1) fu (done ++ [f done.length]) _ (by omega) (by omega) (by simp) (by omega)

end Konst.ArrayEval
