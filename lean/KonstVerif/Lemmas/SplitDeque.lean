import KonstVerif.Lemmas.Split
/-
  C06, mixed front/back histories: for a non-empty delimiter whose occurrences cannot overlap
  (no border; every `char` delimiter is one) the pieces of `split` form a deque — taking the LAST
  occurrence off the back leaves the pieces of the rest (`split_snoc`).  Core Lean only.
-/
namespace Konst.Lemmas.SplitDeque
open Konst Konst.Utf8 Konst.Split Konst.Spec.Bytes Konst.Spec.Utf8 Konst.Spec.Split Konst.Lemmas.Utf8
open Konst.Lemmas.Split

/-! ### characterisations of first / last occurrence -/

theorem fs_iff (h p : List Nat) (i : Nat) :
    findSpec h p = some i ↔ (p <+: h.drop i ∧ i ≤ h.length ∧ ∀ j, j < i → ¬ p <+: h.drop j) := by
  rw [← Konst.Props.C04.find_eq_spec]; exact Konst.Props.C04.find_least h p i

theorem rs_iff (h p : List Nat) (hp : p ≠ []) (i : Nat) :
    rfindSpec h p = some i ↔ (p <+: h.drop i ∧ i ≤ h.length ∧ ∀ j, i < j → ¬ p <+: h.drop j) := by
  rw [← Konst.Props.C04.rfind_eq_spec h p hp]; exact Konst.Props.C04.rfind_greatest h p hp i

theorem fs_none (h p : List Nat) : findSpec h p = none ↔ ∀ i, ¬ p <+: h.drop i := by
  rw [← Konst.Props.C04.find_eq_spec]; exact (Konst.Props.C04.absent_iff h p).1

theorem rs_none (h p : List Nat) (hp : p ≠ []) : rfindSpec h p = none ↔ ∀ i, ¬ p <+: h.drop i := by
  rw [← Konst.Props.C04.rfind_eq_spec h p hp]; exact (Konst.Props.C04.absent_iff h p).2 hp

/-- an occurrence inside `h.take j` is an occurrence in `h` that ends at or before `j` -/
theorem occ_take (h p : List Nat) (j q : Nat) :
    p <+: (h.take j).drop q ↔ p <+: h.drop q ∧ p.length ≤ j - q := by
  rw [List.drop_take, List.prefix_take_iff]

theorem occ_drop (h p : List Nat) (a q : Nat) : p <+: (h.drop a).drop q ↔ p <+: h.drop (a + q) := by
  rw [List.drop_drop]

/-! ### borders -/

/-- no proper non-empty prefix of `d` is a suffix of `d` -/
def Borderless (d : List Nat) : Prop :=
  ∀ k, 0 < k → k < d.length → d.take k ≠ d.drop (d.length - k)

theorem borderless_of_hasBorder {d : List Nat} (h : hasBorder d = false) : Borderless d := by
  intro k hk hkl he
  unfold hasBorder at h
  rw [List.any_eq_false] at h
  have := h k (List.mem_range.mpr hkl)
  simp only [Bool.and_eq_true, bne_iff_ne, ne_eq, beq_iff_eq, not_and] at this
  exact this (by omega) he

/-- occurrences of a borderless delimiter do not overlap -/
theorem no_overlap (d : List Nat) (hb : Borderless d) (s : List Nat) (i j : Nat)
    (hi : d <+: s.drop i) (hj : d <+: s.drop j) (hij : i < j) : i + d.length ≤ j := by
  apply Classical.byContradiction
  intro hlt
  have hm : j - i < d.length := by omega
  obtain ⟨t1, h1⟩ := hi
  obtain ⟨t2, h2⟩ := hj
  have e : s.drop j = d.drop (j - i) ++ t1 := by
    have : s.drop j = (s.drop i).drop (j - i) := by rw [List.drop_drop]; congr 1; omega
    rw [this, ← h1, List.drop_append_of_le_length (by omega)]
  rw [← h2] at e
  have e2 := congrArg (List.take (d.length - (j - i))) e
  have e3 : (d.drop (j - i)).take (d.length - (j - i)) = d.drop (j - i) :=
    List.take_of_length_le (by rw [List.length_drop]; omega)
  rw [List.take_append_of_le_length (by omega),
    List.take_append_of_le_length (by rw [List.length_drop]; omega), e3] at e2
  refine hb (d.length - (j - i)) (by omega) (by omega) ?_
  rw [e2]; congr 1; omega

/-- the encoding of a `char` has no border: it starts with a non-continuation byte and goes on
    with continuation bytes only -/
theorem enc_borderless (c : Nat) : Borderless (enc c) := by
  obtain ⟨b, t, he, hb, ht, _⟩ := enc_ok c
  intro k hk hkl heq
  rw [he] at hkl heq
  -- head of the prefix is `b`, head of the suffix lies in `t`
  have h1 : ((b :: t).take k)[0]? = some b := by
    cases k with
    | zero => omega
    | succ k => simp
  have hlen : (b :: t).length - k = ((b :: t).length - k - 1) + 1 := by omega
  have h2 : ∃ x, ((b :: t).drop ((b :: t).length - k))[0]? = some x ∧ x ∈ t := by
    rw [hlen, List.drop_succ_cons]
    have hlt : (b :: t).length - k - 1 < t.length := by simp only [List.length_cons] at hkl ⊢; omega
    refine ⟨t[(b :: t).length - k - 1], ?_, List.getElem_mem _⟩
    rw [List.getElem?_drop]; simp
  obtain ⟨x, hx, hxt⟩ := h2
  rw [← heq, h1] at hx
  cases hx
  have := ht b hxt
  rw [hb] at this; cases this

/-! ### `split` as a deque -/

theorem splitAux_none (d : List Nat) (n : Nat) (s : List Nat) (h : findSpec s d = none) :
    splitAux d n s = [s] := by
  cases n with
  | zero => rfl
  | succ n => simp only [splitAux, h]

/-- taking the piece after the LAST occurrence off the back leaves the pieces of what precedes it -/
theorem split_snoc (d : List Nat) (hne : d ≠ []) (hb : Borderless d) :
    ∀ (n : Nat) (s : List Nat) (j : Nat), s.length ≤ n → rfindSpec s d = some j →
      splitAux d n s = splitAux d n (s.take j) ++ [s.drop (j + d.length)] := by
  have hdl : 0 < d.length := List.length_pos_iff.mpr hne
  intro n
  induction n with
  | zero =>
    intro s j hl hr
    have : s = [] := List.eq_nil_of_length_eq_zero (by omega)
    subst this
    rw [rfindSpec_nil_none d hne] at hr; cases hr
  | succ n ih =>
    intro s j hl hr
    obtain ⟨oj, hjl, hjmax⟩ := (rs_iff s d hne j).mp hr
    have hjd : j + d.length ≤ s.length := by
      have := oj.length_le; rw [List.length_drop] at this; omega
    cases hf : findSpec s d with
    | none => exact absurd oj ((fs_none s d).mp hf j)
    | some i =>
      obtain ⟨oi, hil, himin⟩ := (fs_iff s d i).mp hf
      have hij : i ≤ j := by
        apply Classical.byContradiction; intro h; exact himin j (by omega) oj
      have hid : i + d.length ≤ s.length := by
        have := oi.length_le; rw [List.length_drop] at this; omega
      by_cases heq : i = j
      · subst heq
        -- nothing after, nothing before
        have hafter : findSpec (s.drop (i + d.length)) d = none := by
          rw [fs_none]; intro q hq
          rw [occ_drop] at hq
          exact hjmax _ (by omega) hq
        have hbefore : findSpec (s.take i) d = none := by
          rw [fs_none]; intro q hq
          rw [occ_take] at hq
          exact himin q (by omega) hq.1
        simp only [splitAux, hf, splitAux_none d n _ hafter, hbefore]
        rfl
      · have hlt : i < j := by omega
        have hno := no_overlap d hb s i j oi oj hlt
        -- the last occurrence of the rest
        have hr' : rfindSpec (s.drop (i + d.length)) d = some (j - (i + d.length)) := by
          rw [rs_iff _ _ hne]
          refine ⟨?_, by rw [List.length_drop]; omega, ?_⟩
          · rw [occ_drop]; rw [show i + d.length + (j - (i + d.length)) = j by omega]; exact oj
          · intro q hq hocc
            rw [occ_drop] at hocc
            exact hjmax _ (by omega) hocc
        -- the first occurrence of the front part is still `i`
        have hf' : findSpec (s.take j) d = some i := by
          rw [fs_iff]
          refine ⟨?_, by rw [List.length_take]; omega, ?_⟩
          · rw [occ_take]; exact ⟨oi, by omega⟩
          · intro q hq hocc
            rw [occ_take] at hocc
            exact himin q hq hocc.1
        have e1 : (s.take j).take i = s.take i := by
          rw [List.take_take, Nat.min_eq_left hij]
        have e2 : (s.take j).drop (i + d.length) = (s.drop (i + d.length)).take (j - (i + d.length)) := by
          rw [List.drop_take]
        have e3 : (s.drop (i + d.length)).drop (j - (i + d.length) + d.length) = s.drop (j + d.length) := by
          rw [List.drop_drop]; congr 1; omega
        simp only [splitAux, hf, hf']
        rw [ih (s.drop (i + d.length)) (j - (i + d.length)) (by rw [List.length_drop]; omega) hr',
          e1, e2, e3]
        rfl

/-! ### histories -/

/-- spec-side observation as a model observation -/
def toObs (x : Option PStr × PStr) : Obs :=
  match x.1 with
  | some p => .item (ofP p) (ofP x.2)
  | none => .none (ofP x.2)

def flipDir : Dir → Dir
  | .f => .b
  | .b => .f

/-- the history as seen by the underlying `Split`: an `RSplit`'s `next` is the back step -/
def orient (f : Bool) (h : List Dir) : List Dir := if f then h else h.map flipDir

theorem orient_cons (f : Bool) (x : Dir) (h : List Dir) :
    orient f (x :: h) = (if f then x else flipDir x) :: orient f h := by
  cases f <;> rfl

theorem map_const_orient {β : Type} (f : Bool) (h : List Dir) (c : β) :
    (orient f h).map (fun _ => c) = h.map (fun _ => c) := by
  cases f <;> simp [orient, List.map_map, Function.comp_def]

theorem histSpec_nil_pieces (dl o : Nat) (cur : List Nat) :
    ∀ h : List Dir, histSpec dl o cur [] h = h.map (fun _ => (none, pnorm (o, cur))) := by
  intro h
  induction h with
  | nil => rfl
  | cons x h ih => simp only [histSpec, ih, List.map_cons]

theorem runHist_finished (f : Bool) : ∀ h : List Dir,
    runHist ⟨f, Str.lit, .finished⟩ h = h.map (fun _ => Obs.none Str.lit) := by
  intro h
  induction h with
  | nil => rfl
  | cons x h ih =>
    cases x <;> cases f <;>
      (show Obs.none Str.lit :: runHist _ h = _; rw [ih]; rfl)

theorem histSpec_front (dl o : Nat) (cur p : List Nat) (ps : List (List Nat)) (h : List Dir) :
    histSpec dl o cur (p :: ps) (.f :: h) =
      (some (pnorm (o, p)), pnorm (o + (p.length + dl), cur.drop (p.length + dl))) ::
        histSpec dl (o + (p.length + dl)) (cur.drop (p.length + dl)) ps h := rfl

theorem histSpec_back (dl o : Nat) (cur x : List Nat) (A : List (List Nat)) (h : List Dir) :
    histSpec dl o cur (A ++ [x]) (.b :: h) =
      (some (pnorm (o + (cur.length - x.length), x)), pnorm (o, cur.take (cur.length - (x.length + dl)))) ::
        histSpec dl o (cur.take (cur.length - (x.length + dl))) A h := by
  cases A with
  | nil => rfl
  | cons a A =>
    simp only [List.cons_append, histSpec]
    have e1 : (a :: (A ++ [x])).getLast (List.cons_ne_nil _ _) = x := by
      rw [List.getLast_cons (by simp), List.getLast_concat]
    have e2 : (a :: (A ++ [x])).dropLast = a :: A := by
      rw [← List.cons_append, List.dropLast_concat]
    rw [e1, e2]

/-- the step the `next` block takes in state Normal (front of the deque), followed by the rest -/
private theorem front_step (f : Bool) (d : List Nat) (hd : Valid d) (hne : d ≠ [])
    (h : List Dir) (n : Nat)
    (ih : ∀ (n : Nat) (cur : List Nat) (o : Nat), cur.length ≤ n → Valid cur →
      runHist ⟨f, ⟨o, cur⟩, .normal d⟩ h = (histSpec d.length o cur (splitAux d n cur) (orient f h)).map toObs)
    (cur : List Nat) (o : Nat) (hl : cur.length ≤ n) (hv : Valid cur) :
    (match nextBlock ⟨f, ⟨o, cur⟩, .normal d⟩ with
      | .error _ => [Obs.panic]
      | .ok none => Obs.none (Str.mk o cur).norm :: runHist ⟨f, ⟨o, cur⟩, .normal d⟩ h
      | .ok (some (p, it')) => Obs.item p.norm it'.remainder.norm :: runHist it' h) =
    (histSpec d.length o cur (splitAux d n cur) (.f :: orient f h)).map toObs := by
  have hdl : 0 < d.length := List.length_pos_iff.mpr hne
  cases hf : findSpec cur d with
  | none =>
    rw [nextBlock_none f ⟨o, cur⟩ d hf, splitAux_none d n cur hf, histSpec_front]
    simp only [runHist_finished, histSpec_nil_pieces, List.map_cons, List.map_map]
    simp [toObs, Iter.remainder, norm_mk, norm_lit, List.drop_of_length_le, Function.comp_def,
      pnorm]
    exact ⟨rfl, (map_const_orient f h _).symm⟩
  | some i =>
    obtain ⟨_, _, hle, _, hvd⟩ := occ_facts cur d hv hd hne i (findSpec_some hf)
    have hi : i ≤ cur.length := by omega
    obtain ⟨m, rfl⟩ : ∃ m, n = m + 1 := ⟨n - 1, by omega⟩
    rw [nextBlock_found f o cur d hv hd hne i hf]
    simp only [splitAux, hf]
    rw [histSpec_front, take_length_of_le cur hi]
    simp only [List.map_cons]
    rw [ih m (cur.drop (i + d.length)) (o + (i + d.length)) (by rw [List.length_drop]; omega) hvd]
    simp [toObs, Iter.remainder, norm_mk]

/-- the step the `next_back` block takes in state Normal (back of the deque) -/
private theorem back_step (f : Bool) (d : List Nat) (hd : Valid d) (hne : d ≠ []) (hb : Borderless d)
    (h : List Dir) (n : Nat)
    (ih : ∀ (n : Nat) (cur : List Nat) (o : Nat), cur.length ≤ n → Valid cur →
      runHist ⟨f, ⟨o, cur⟩, .normal d⟩ h = (histSpec d.length o cur (splitAux d n cur) (orient f h)).map toObs)
    (cur : List Nat) (o : Nat) (hl : cur.length ≤ n) (hv : Valid cur) :
    (match nextBackBlock ⟨f, ⟨o, cur⟩, .normal d⟩ with
      | .error _ => [Obs.panic]
      | .ok none => Obs.none (Str.mk o cur).norm :: runHist ⟨f, ⟨o, cur⟩, .normal d⟩ h
      | .ok (some (p, it')) => Obs.item p.norm it'.remainder.norm :: runHist it' h) =
    (histSpec d.length o cur (splitAux d n cur) (.b :: orient f h)).map toObs := by
  have hdl : 0 < d.length := List.length_pos_iff.mpr hne
  cases hr : rfindSpec cur d with
  | none =>
    have hf : findSpec cur d = none := (fs_none cur d).mpr ((rs_none cur d hne).mp hr)
    rw [nextBackBlock_none f ⟨o, cur⟩ d hne hr, splitAux_none d n cur hf]
    rw [show ([cur] : List (List Nat)) = [] ++ [cur] from rfl, histSpec_back]
    have h0 : cur.length - (cur.length + d.length) = 0 := by omega
    simp only [runHist_finished, histSpec_nil_pieces, List.map_cons, List.map_map]
    simp [toObs, Iter.remainder, norm_mk, norm_lit, h0, Function.comp_def, pnorm]
    exact ⟨rfl, (map_const_orient f h _).symm⟩
  | some j =>
    obtain ⟨_, _, hle, hvt, _⟩ := occ_facts cur d hv hd hne j (rfindSpec_some hne hr)
    have hj : j ≤ cur.length := by omega
    rw [nextBackBlock_found f o cur d hv hd hne j hr, split_snoc d hne hb n cur j hl hr, histSpec_back]
    have e1 : cur.length - ((cur.drop (j + d.length)).length + d.length) = j := by
      rw [List.length_drop]; omega
    have e2 : cur.length - (cur.drop (j + d.length)).length = j + d.length := by
      rw [List.length_drop]; omega
    simp only [List.map_cons, e1, e2]
    rw [ih n (cur.take j) o (by rw [take_length_of_le cur hj]; omega) hvt]
    simp [toObs, Iter.remainder, norm_mk]

/-- EVERY front/back history on a `Split` (`f = true`) or `RSplit` (`f = false`) whose delimiter is
    non-empty and borderless, started in state Normal on any valid string at any offset, is the
    history on the deque of `split`'s pieces (an `RSplit` takes from the back on `next`) -/
theorem hist_normal (f : Bool) (d : List Nat) (hd : Valid d) (hne : d ≠ []) (hb : Borderless d) :
    ∀ (h : List Dir) (n : Nat) (cur : List Nat) (o : Nat), cur.length ≤ n → Valid cur →
      runHist ⟨f, ⟨o, cur⟩, .normal d⟩ h =
        (histSpec d.length o cur (splitAux d n cur) (orient f h)).map toObs := by
  intro h
  induction h with
  | nil => intro n cur o _ _; cases f <;> rfl
  | cons x h ih =>
    intro n cur o hl hv
    rw [orient_cons]
    cases x <;> cases f
    · exact back_step false d hd hne hb h n ih cur o hl hv
    · exact front_step true d hd hne h n ih cur o hl hv
    · exact front_step false d hd hne h n ih cur o hl hv
    · exact back_step true d hd hne hb h n ih cur o hl hv

end Konst.Lemmas.SplitDeque
