import KonstVerif.Model.Parser
import KonstVerif.Spec.ParserInv
import KonstVerif.Lemmas.Utf8
import KonstVerif.Lemmas.Bytes
import KonstVerif.Props.C04
import KonstVerif.Props.C05
/-
  Helper lemmas for C13 / C14 (namespace `Konst.Lemmas.Parser`).

  * `Bnd s k`           the strict byte test `__is_char_boundary_bytes(s, k)`
  * `bnd_drop/_take…`   the byte test is local: it transfers between a string and its sub-slices
  * `bnd_match`, `bnd_ascii_prefix`, `bnd_zero`  where matches / ASCII runs end in a VALID string
  * `Cut p p'`          `p'` keeps the sub-range `[a, b)` of `p`'s remainder, `a`, `b` boundaries,
                        `start_offset` advanced by `a`
  * `Good d p r`        what every operation guarantees about its result `r` on a valid parser `p`
  * one `…_good` lemma per method, `step_good`
-/
set_option linter.unusedSimpArgs false
namespace Konst.Lemmas.Parser
open Konst Konst.Parser Konst.Spec.Utf8 Konst.Spec.Bytes Konst.Lemmas.Utf8

/-- the strict char-boundary byte test of the code -/
abbrev Bnd (s : List Nat) (k : Nat) : Prop := Utf8.isCharBoundaryBytes s k = true

theorem bnd_iff (s : List Nat) (k : Nat) :
    Bnd s k ↔ k = s.length ∨ (k < s.length ∧ Utf8.byteIsCharBoundary (s.getD k 0) = true) := by
  unfold Bnd Utf8.isCharBoundaryBytes
  simp only [Bool.or_eq_true, beq_iff_eq, Bool.and_eq_true, decide_eq_true_eq]

theorem bnd_len (s : List Nat) : Bnd s s.length := (bnd_iff s _).mpr (Or.inl rfl)

theorem bnd_le {s : List Nat} {k : Nat} (h : Bnd s k) : k ≤ s.length := by
  rcases (bnd_iff s k).mp h with h | h <;> omega

theorem getD_drop (s : List Nat) (a k : Nat) : (s.drop a).getD k 0 = s.getD (a + k) 0 := by
  simp [List.getD, List.getElem?_drop]

theorem getD_take (s : List Nat) (b k : Nat) (h : k < b) : (s.take b).getD k 0 = s.getD k 0 := by
  simp [List.getD, h]

/-- a boundary of a suffix is a boundary of the string -/
theorem bnd_drop {s : List Nat} {a k : Nat} (ha : a ≤ s.length) (h : Bnd (s.drop a) k) : Bnd s (a + k) := by
  rw [bnd_iff] at h ⊢
  simp only [List.length_drop, getD_drop] at h
  rcases h with h | ⟨h1, h2⟩
  · left; omega
  · right; exact ⟨by omega, h2⟩

/-- … and conversely -/
theorem bnd_of_drop {s : List Nat} {a k : Nat} (h : Bnd s (a + k)) : Bnd (s.drop a) k := by
  rw [bnd_iff] at h ⊢
  simp only [List.length_drop, getD_drop]
  rcases h with h | ⟨h1, h2⟩
  · left; omega
  · right; exact ⟨by omega, h2⟩

/-- a boundary of a prefix that ends on a boundary is a boundary of the string -/
theorem bnd_take {s : List Nat} {b k : Nat} (hb : Bnd s b) (h : Bnd (s.take b) k) : Bnd s k := by
  have hbl := bnd_le hb
  rw [bnd_iff] at h
  simp only [List.length_take, Nat.min_eq_left hbl] at h
  rcases h with h | ⟨h1, h2⟩
  · rw [h]; exact hb
  · rw [getD_take s b k h1] at h2
    exact (bnd_iff s k).mpr (Or.inr ⟨by omega, h2⟩)

/-- … and conversely -/
theorem bnd_of_take {s : List Nat} {b k : Nat} (hb : b ≤ s.length) (hk : k ≤ b) (h : Bnd s k) :
    Bnd (s.take b) k := by
  rw [bnd_iff] at h ⊢
  simp only [List.length_take, Nat.min_eq_left hb]
  by_cases hkb : k = b
  · left; exact hkb
  · right
    have hlt : k < b := by omega
    rw [getD_take s b k hlt]
    rcases h with h | ⟨_, h2⟩
    · omega
    · exact ⟨hlt, h2⟩

/-- an ASCII byte is never a continuation byte: a position holding one is a boundary -/
theorem bnd_of_ascii {s : List Nat} {k : Nat} (hk : k < s.length) (hb : s.getD k 0 < 128) : Bnd s k := by
  refine (bnd_iff s k).mpr (Or.inr ⟨hk, ?_⟩)
  unfold Utf8.byteIsCharBoundary Utf8.asI8
  simp only [hb, if_true, decide_eq_true_eq]
  omega

/-! ### valid strings -/

theorem bnd_iff_isBoundary (cs : List Nat) (hs : ∀ c ∈ cs, isScalar c = true) (k : Nat) :
    Bnd (encs cs) k ↔ IsBoundary cs k := boundary_iff cs hs k

/-- offset 0 of a `&str` is a boundary -/
theorem bnd_zero {s : List Nat} (hv : Valid s) : Bnd s 0 := by
  obtain ⟨cs, hs, rfl⟩ := hv
  exact (bnd_iff_isBoundary cs hs 0).mpr (boundary_zero cs)

/-- both ends of a byte-wise occurrence of a non-empty `&str` needle in a `&str` are boundaries -/
theorem bnd_match {s m : List Nat} (hv : Valid s) (hm : Valid m) (hne : m ≠ []) {i : Nat}
    (hocc : m <+: s.drop i) : Bnd s i ∧ Bnd s (i + m.length) := by
  obtain ⟨cs, hs, rfl⟩ := hv
  obtain ⟨ps, _, rfl⟩ := hm
  have hps : ps ≠ [] := by
    rintro rfl; exact hne rfl
  have := match_on_boundaries cs ps hps i hocc
  exact ⟨(bnd_iff_isBoundary cs hs i).mpr this.1, (bnd_iff_isBoundary cs hs _).mpr this.2⟩

theorem valid_drop {s : List Nat} (hv : Valid s) {k : Nat} (hk : Bnd s k) : Valid (s.drop k) := by
  obtain ⟨cs, hs, rfl⟩ := hv
  exact drop_valid cs hs k ((bnd_iff_isBoundary cs hs k).mp hk)

theorem valid_take {s : List Nat} (hv : Valid s) {k : Nat} (hk : Bnd s k) : Valid (s.take k) := by
  obtain ⟨cs, hs, rfl⟩ := hv
  exact take_valid cs hs k ((bnd_iff_isBoundary cs hs k).mp hk)

/-- a single ASCII byte is a `&str` -/
theorem valid_ascii (b : Nat) (hb : b < 128) : Valid [b] :=
  ⟨[b], by
    intro c hc
    simp only [List.mem_singleton] at hc
    subst hc
    unfold isScalar
    simp only [Bool.or_eq_true, decide_eq_true_eq]
    left; omega,
   by simp [encs, enc, hb]⟩

/-- the end of an ASCII prefix of a `&str` is a boundary -/
theorem bnd_ascii_prefix : ∀ (a : List Nat) {s rest : List Nat}, Valid s → s = a ++ rest →
    (∀ b ∈ a, b < 128) → Bnd s a.length := by
  intro a
  induction a with
  | nil => intro s rest hv _ _; exact bnd_zero hv
  | cons b a ih =>
    intro s rest hv hs ha
    have hb : b < 128 := ha b (List.mem_cons_self)
    have hocc : [b] <+: s.drop 0 := by
      rw [List.drop_zero, hs]; exact ⟨a ++ rest, by simp⟩
    have h1 := (bnd_match hv (valid_ascii b hb) (by simp) hocc).2
    simp only [List.length_singleton, Nat.zero_add] at h1
    have hv' := valid_drop hv h1
    have hs' : s.drop 1 = a ++ rest := by rw [hs]; simp
    have := ih hv' hs' (fun x hx => ha x (List.mem_cons_of_mem _ hx))
    have h2 := bnd_drop (s := s) (a := 1) (by rw [hs]; simp) this
    simpa [Nat.add_comm] using h2

/-! ### where the free functions cut a valid string -/

/-- `r` is the suffix of `h` starting at a boundary -/
def FrontAt (h r : List Nat) : Prop := ∃ k, Bnd h k ∧ r = h.drop k
/-- `r` is the prefix of `h` ending at a boundary -/
def BackAt (h r : List Nat) : Prop := ∃ k, Bnd h k ∧ r = h.take k

theorem frontAt_self {h : List Nat} (hv : Valid h) : FrontAt h h := ⟨0, bnd_zero hv, by simp⟩
theorem backAt_self (h : List Nat) : BackAt h h := ⟨h.length, bnd_len h, by simp⟩
theorem frontAt_nil (h : List Nat) : FrontAt h [] := ⟨h.length, bnd_len h, by simp⟩
theorem backAt_nil {h : List Nat} (hv : Valid h) : BackAt h [] := ⟨0, bnd_zero hv, by simp⟩

theorem frontAt_trans {h r t : List Nat} (h1 : FrontAt h r) (h2 : FrontAt r t) : FrontAt h t := by
  obtain ⟨k, hk, rfl⟩ := h1
  obtain ⟨j, hj, rfl⟩ := h2
  exact ⟨k + j, bnd_drop (bnd_le hk) hj, by rw [List.drop_drop]⟩

theorem backAt_trans {h r t : List Nat} (h1 : BackAt h r) (h2 : BackAt r t) : BackAt h t := by
  obtain ⟨k, hk, rfl⟩ := h1
  obtain ⟨j, hj, rfl⟩ := h2
  have hjk : j ≤ k := by have := bnd_le hj; simp only [List.length_take] at this; omega
  exact ⟨j, bnd_take hk hj, by rw [List.take_take, Nat.min_eq_left hjk]⟩

theorem frontAt_valid {h r : List Nat} (hv : Valid h) (h1 : FrontAt h r) : Valid r := by
  obtain ⟨k, hk, rfl⟩ := h1; exact valid_drop hv hk
theorem backAt_valid {h r : List Nat} (hv : Valid h) (h1 : BackAt h r) : Valid r := by
  obtain ⟨k, hk, rfl⟩ := h1; exact valid_take hv hk

theorem stripPrefix_front {h m : List Nat} {x : View} (hv : Valid h) (hm : Valid m)
    (hx : StrFns.stripPrefix h m = some x) : FrontAt h (x.apply h) := by
  have h1 := (Props.C05.stripPrefix_eq h m).1
  change Bytes.stripPrefix h m = some x at hx
  rw [hx] at h1
  unfold stripPrefixSpec at h1
  by_cases hp : m.isPrefixOf h = true
  · simp only [hp, if_true, Option.map_some, Option.some.injEq] at h1
    rw [h1]
    by_cases hne : m = []
    · subst hne; exact ⟨0, bnd_zero hv, rfl⟩
    · have hocc : m <+: h.drop 0 := by simpa using List.isPrefixOf_iff_prefix.mp hp
      have := (bnd_match hv hm hne hocc).2
      exact ⟨m.length, by simpa using this, rfl⟩
  · simp [hp] at h1

theorem stripSuffix_back {h m : List Nat} {x : View} (hv : Valid h) (hm : Valid m)
    (hx : StrFns.stripSuffix h m = some x) : BackAt h (x.apply h) := by
  have h1 := (Props.C05.stripSuffix_eq h m).1
  change Bytes.stripSuffix h m = some x at hx
  rw [hx] at h1
  unfold stripSuffixSpec at h1
  by_cases hp : m.isSuffixOf h = true
  · simp only [hp, if_true, Option.map_some, Option.some.injEq] at h1
    rw [h1]
    by_cases hne : m = []
    · subst hne; exact ⟨h.length, bnd_len h, by simp⟩
    · have hsuf : m <:+ h := List.isSuffixOf_iff_suffix.mp hp
      have hocc : m <+: h.drop (h.length - m.length) := by
        rw [← List.suffix_iff_eq_drop.mp hsuf]; exact List.prefix_refl m
      exact ⟨h.length - m.length, (bnd_match hv hm hne hocc).1, rfl⟩
  · simp [hp] at h1

theorem mem_takeWhile_imp' {q : Nat → Bool} : ∀ {l : List Nat} {x : Nat}, x ∈ l.takeWhile q → q x = true := by
  intro l
  induction l with
  | nil => intro x hx; simp at hx
  | cons a l ih =>
    intro x hx
    by_cases ha : q a = true
    · simp only [List.takeWhile_cons, ha, if_true, List.mem_cons] at hx
      rcases hx with rfl | hx
      · exact ha
      · exact ih hx
    · simp [List.takeWhile_cons, ha] at hx

theorem dropWhile_eq_drop (q : Nat → Bool) : ∀ (l : List Nat), l.dropWhile q = l.drop (l.takeWhile q).length := by
  intro l
  induction l with
  | nil => simp
  | cons a l ih =>
    by_cases ha : q a = true
    · simp [List.dropWhile_cons, List.takeWhile_cons, ha, ih]
    · simp [List.dropWhile_cons, List.takeWhile_cons, ha]

theorem ws_lt (b : Nat) (h : isAsciiWhitespace b = true) : b < 128 := by
  unfold isAsciiWhitespace at h
  simp only [List.contains_cons, List.contains_nil, Bool.or_false, Bool.or_eq_true, beq_iff_eq] at h
  omega

theorem trimStart_front {h : List Nat} (hv : Valid h) : FrontAt h ((StrFns.trimStart h).apply h) := by
  change FrontAt h ((Bytes.bytesTrimStart h).apply h)
  rw [(Props.C05.bytesTrimStart_eq h).1]
  unfold trimAsciiStartSpec
  have hsplit : h = h.takeWhile isAsciiWhitespace ++ h.dropWhile isAsciiWhitespace :=
    (List.takeWhile_append_dropWhile).symm
  have hb := bnd_ascii_prefix (h.takeWhile isAsciiWhitespace) hv hsplit
    (fun b hb => ws_lt b (mem_takeWhile_imp' hb))
  exact ⟨_, hb, dropWhile_eq_drop _ h⟩

theorem trimEnd_back (h : List Nat) : BackAt h ((StrFns.trimEnd h).apply h) := by
  change BackAt h ((Bytes.bytesTrimEnd h).apply h)
  rw [(Props.C05.bytesTrimEnd_eq h).1]
  unfold trimAsciiEndSpec
  -- h = kept ++ dropped, every dropped byte is whitespace
  have hsplit : h = (h.reverse.dropWhile isAsciiWhitespace).reverse ++ (h.reverse.takeWhile isAsciiWhitespace).reverse := by
    rw [← List.reverse_append, List.takeWhile_append_dropWhile, List.reverse_reverse]
  generalize hk : (h.reverse.dropWhile isAsciiWhitespace).reverse = kept at hsplit
  generalize hd : (h.reverse.takeWhile isAsciiWhitespace).reverse = dropped at hsplit
  have hall : ∀ b ∈ dropped, b < 128 := by
    intro b hb
    rw [← hd, List.mem_reverse] at hb
    exact ws_lt b (mem_takeWhile_imp' hb)
  refine ⟨kept.length, ?_, by rw [hsplit]; simp⟩
  cases dropped with
  | nil => simp only [List.append_nil] at hsplit; rw [hsplit]; exact bnd_len _
  | cons d ds =>
    apply bnd_of_ascii
    · rw [hsplit]; simp
    · have : h.getD kept.length 0 = d := by rw [hsplit]; simp [List.getD]
      rw [this]; exact hall d (List.mem_cons_self)

/-- `trim_start_matches` on a `&str` with a `&str`/`char` needle cuts at a boundary -/
theorem trimStartSpec_front (m : List Nat) (hm : Valid m) : ∀ (n : Nat) (h : List Nat), h.length = n → Valid h →
    FrontAt h (trimStartSpec m h) := by
  intro n
  induction n using Nat.strongRecOn with
  | _ n ih =>
    intro h hn hv
    rw [trimStartSpec]
    by_cases hc : m ≠ [] ∧ m.isPrefixOf h = true
    · rw [dif_pos hc]
      have hpre : m <+: h := List.isPrefixOf_iff_prefix.mp hc.2
      have hocc : m <+: h.drop 0 := by simpa using hpre
      have hb := (bnd_match hv hm hc.1 hocc).2
      simp only [Nat.zero_add] at hb
      have hlen : 0 < m.length := List.length_pos_iff.mpr hc.1
      have hle := hpre.length_le
      have := ih (h.drop m.length).length (by simp only [List.length_drop]; omega) (h.drop m.length) rfl
        (valid_drop hv hb)
      exact frontAt_trans ⟨m.length, hb, rfl⟩ this
    · rw [dif_neg hc]; exact frontAt_self hv

theorem trimStartMatches_front {h m : List Nat} (hv : Valid h) (hm : Valid m) :
    FrontAt h ((StrFns.trimStartMatches h m).apply h) := by
  change FrontAt h ((Bytes.trimStartMatches h m).apply h)
  rw [(Props.C05.trimStartMatches_eq_spec h m).1]
  exact trimStartSpec_front m hm _ h rfl hv

theorem trimEndSpec_back (m : List Nat) (hm : Valid m) : ∀ (n : Nat) (h : List Nat), h.length = n → Valid h →
    BackAt h (trimEndSpec m h) := by
  intro n
  induction n using Nat.strongRecOn with
  | _ n ih =>
    intro h hn hv
    rw [trimEndSpec]
    by_cases hc : m ≠ [] ∧ m.isSuffixOf h = true
    · rw [dif_pos hc]
      have hsuf : m <:+ h := List.isSuffixOf_iff_suffix.mp hc.2
      have hocc : m <+: h.drop (h.length - m.length) := by
        rw [← List.suffix_iff_eq_drop.mp hsuf]; exact List.prefix_refl m
      have hb := (bnd_match hv hm hc.1 hocc).1
      have hlen : 0 < m.length := List.length_pos_iff.mpr hc.1
      have hle := hsuf.length_le
      have := ih (h.take (h.length - m.length)).length (by simp only [List.length_take]; omega)
        (h.take (h.length - m.length)) rfl (valid_take hv hb)
      exact backAt_trans ⟨_, hb, rfl⟩ this
    · rw [dif_neg hc]; exact backAt_self h

theorem trimEndMatches_back {h m : List Nat} (hv : Valid h) (hm : Valid m) :
    BackAt h ((StrFns.trimEndMatches h m).apply h) := by
  change BackAt h ((Bytes.trimEndMatches h m).apply h)
  rw [(Props.C05.trimEndMatches_eq_spec h m).1]
  exact trimEndSpec_back m hm _ h rfl hv

theorem findSpec_nil' (h : List Nat) : findSpec h [] = some 0 := by
  rw [← Props.C04.find_eq_spec]; exact Props.C04.find_empty h

/-- the first occurrence of a `&str` needle: both ends are boundaries (empty needle: offset 0) -/
theorem findSpec_bnd {h m : List Nat} (hv : Valid h) (hm : Valid m) {i : Nat} (hi : findSpec h m = some i) :
    Bnd h i ∧ Bnd h (i + m.length) := by
  by_cases hne : m = []
  · subst hne
    rw [findSpec_nil'] at hi
    cases hi
    exact ⟨bnd_zero hv, bnd_zero hv⟩
  · rw [← Props.C04.find_eq_spec] at hi
    exact bnd_match hv hm hne ((Props.C04.find_least h m i).mp hi).1

/-- the last occurrence of a NON-EMPTY `&str` needle -/
theorem rfindSpec_bnd {h m : List Nat} (hv : Valid h) (hm : Valid m) (hne : m ≠ []) {i : Nat}
    (hi : rfindSpec h m = some i) : Bnd h i ∧ Bnd h (i + m.length) := by
  rw [← Props.C04.rfind_eq_spec h m hne] at hi
  exact bnd_match hv hm hne ((Props.C04.rfind_greatest h m hne i).mp hi).1

theorem findSkip_front {h m : List Nat} {x : View} (hv : Valid h) (hm : Valid m)
    (hx : StrFns.findSkip h m = some x) : FrontAt h (x.apply h) := by
  have h1 := (Props.C04.findSkip_eq h m).1
  change Bytes.findSkip h m = some x at hx
  rw [hx] at h1
  unfold findSkipSpec at h1
  cases hf : findSpec h m with
  | none => simp [hf] at h1
  | some i =>
    simp only [hf, Option.map_some, Option.some.injEq] at h1
    exact ⟨_, (findSpec_bnd hv hm hf).2, h1⟩

theorem rfindSkip_back {h m : List Nat} {x : View} (hv : Valid h) (hm : Valid m)
    (hx : StrFns.rfindSkip h m = some x) : BackAt h (x.apply h) := by
  by_cases hne : m = []
  · subst hne
    have : x = ⟨0, h.length⟩ := by
      change Bytes.rfindSkip h [] = some x at hx
      simpa [Bytes.rfindSkip] using hx.symm
    subst this
    have : (View.mk 0 h.length).apply h = h := by simp [View.apply]
    rw [this]; exact backAt_self h
  · have h1 := (Props.C04.rfindSkip_eq h m).1
    change Bytes.rfindSkip h m = some x at hx
    rw [hx] at h1
    unfold rfindSkipSpec at h1
    cases hf : rfindSpec h m with
    | none => simp [hf] at h1
    | some i =>
      simp only [hf, Option.map_some, Option.some.injEq] at h1
      exact ⟨_, (rfindSpec_bnd hv hm hne hf).1, h1⟩

theorem rfindSpec_nil' (h : List Nat) : rfindSpec h [] = some h.length := by
  unfold rfindSpec
  rw [List.range_succ, List.reverse_append]
  simp [Lemmas.Bytes.occursAt_nil]

/-- `split_once` on `&str` arguments never panics; the part before ends, the part behind starts on
    a boundary -/
theorem splitOnce_cut {h d : List Nat} (hv : Valid h) (hd : Valid d) :
    ∃ r, StrFns.splitOnce h d = .ok r ∧ (r = none ↔ findSpec h d = none) ∧
      ∀ a b, r = some (a, b) → ∃ i, findSpec h d = some i ∧ Bnd h i ∧ Bnd h (i + d.length) ∧
        a.apply h = h.take i ∧ b.apply h = h.drop (i + d.length) := by
  obtain ⟨r, hr, hmap⟩ := (Props.C04.splitOnce_valid h d hv hd).1
  refine ⟨r, hr, ?_, ?_⟩
  · unfold splitOnceSpec at hmap
    cases hf : findSpec h d <;> cases r <;> simp [hf] at hmap ⊢
  · intro a b hab
    subst hab
    unfold splitOnceSpec at hmap
    cases hf : findSpec h d with
    | none => simp [hf] at hmap
    | some i =>
      simp only [hf, Option.map_some, Option.some.injEq, Prod.mk.injEq] at hmap
      have hb := findSpec_bnd hv hd hf
      exact ⟨i, rfl, hb.1, hb.2, hmap.1, hmap.2⟩

theorem rsplitOnce_cut {h d : List Nat} (hv : Valid h) (hd : Valid d) :
    ∃ r, StrFns.rsplitOnce h d = .ok r ∧ (r = none ↔ rfindSpec h d = none) ∧
      ∀ a b, r = some (a, b) → ∃ i, rfindSpec h d = some i ∧ Bnd h i ∧ Bnd h (i + d.length) ∧
        a.apply h = h.take i ∧ b.apply h = h.drop (i + d.length) := by
  obtain ⟨r, hr, hmap⟩ := (Props.C04.splitOnce_valid h d hv hd).2
  refine ⟨r, hr, ?_, ?_⟩
  · unfold rsplitOnceSpec at hmap
    cases hf : rfindSpec h d <;> cases r <;> simp [hf] at hmap ⊢
  · intro a b hab
    subst hab
    unfold rsplitOnceSpec at hmap
    cases hf : rfindSpec h d with
    | none => simp [hf] at hmap
    | some i =>
      simp only [hf, Option.map_some, Option.some.injEq, Prod.mk.injEq] at hmap
      have hb : Bnd h i ∧ Bnd h (i + d.length) := by
        by_cases hne : d = []
        · subst hne
          rw [rfindSpec_nil'] at hf; cases hf
          exact ⟨bnd_len h, bnd_len h⟩
        · exact rfindSpec_bnd hv hd hne hf
      exact ⟨i, rfl, hb.1, hb.2, hmap.1, hmap.2⟩

theorem forgiving_of_bnd {s : List Nat} {k : Nat} (hk : Bnd s k) : Utf8.isCharBoundaryForgiving s k = true := by
  rw [forgiving_eq]; simp [show Utf8.isCharBoundaryBytes s k = true from hk]

theorem strFrom_ok {s : List Nat} {k : Nat} (hk : Bnd s k) :
    Utf8.strFrom s k = .ok (Slice.sliceFrom s.length k) := by
  unfold Utf8.strFrom; rw [forgiving_of_bnd hk]; rfl

theorem strUpTo_ok {s : List Nat} {k : Nat} (hk : Bnd s k) :
    Utf8.strUpTo s k = .ok (Slice.sliceUpTo s.length k) := by
  unfold Utf8.strUpTo; rw [forgiving_of_bnd hk]; rfl

theorem splitAt_ok {s : List Nat} {k : Nat} (hk : Bnd s k) :
    Utf8.splitAt s k = .ok (Slice.sliceUpTo s.length k, Slice.sliceFrom s.length k) := by
  unfold Utf8.splitAt; rw [strFrom_ok hk, strUpTo_ok hk]; rfl

theorem sliceFrom_apply' (s : List Nat) (k : Nat) : (Slice.sliceFrom s.length k).apply s = s.drop k :=
  Lemmas.Bytes.sliceFrom_apply s k
theorem sliceUpTo_apply' (s : List Nat) (k : Nat) : (Slice.sliceUpTo s.length k).apply s = s.take k :=
  Lemmas.Bytes.sliceUpTo_apply s k

/-! ### parse_* consume an ASCII prefix -/

theorem isDigit_lt {b : Nat} (h : ParseInt.isDigit b = true) : b < 128 := by
  unfold ParseInt.isDigit at h
  simp only [Bool.and_eq_true, decide_eq_true_eq] at h
  omega

theorem accLoop_prefix (bits : Nat) : ∀ (bytes : List Nat) (num n : Nat) (rest : List Nat),
    ParseInt.accLoop bits bytes num = some (n, rest) →
    ∃ pre, bytes = pre ++ rest ∧ ∀ b ∈ pre, b < 128 := by
  intro bytes
  induction bytes with
  | nil =>
    intro num n rest h
    simp only [ParseInt.accLoop, Option.some.injEq, Prod.mk.injEq] at h
    exact ⟨[], by simp [h.2], by simp⟩
  | cons b t ih =>
    intro num n rest h
    unfold ParseInt.accLoop at h
    by_cases hd : ParseInt.isDigit b = true
    · simp only [hd, if_true] at h
      split at h
      · cases h
      · obtain ⟨pre, hp, hall⟩ := ih _ _ _ h
        refine ⟨b :: pre, by simp [hp], ?_⟩
        intro x hx
        simp only [List.mem_cons] at hx
        rcases hx with rfl | hx
        · exact isDigit_lt hd
        · exact hall x hx
    · simp only [hd] at h
      simp only [Bool.false_eq_true, if_false, Option.some.injEq, Prod.mk.injEq] at h
      exact ⟨[], by simp [h.2], by simp⟩

theorem parseIntegerBody_prefix (signed : Bool) (bits : Nat) (s : List Nat) (v : Int) (rest : List Nat)
    (h : ParseInt.parseIntegerBody signed bits s = some (v, rest)) :
    ∃ pre, s = pre ++ rest ∧ ∀ b ∈ pre, b < 128 := by
  unfold ParseInt.parseIntegerBody at h
  -- the sign
  have hsign : ∃ sg, s = sg ++ (ParseInt.parseSign signed s).2 ∧ ∀ b ∈ sg, b < 128 := by
    unfold ParseInt.parseSign
    cases signed with
    | false => exact ⟨[], by simp, by simp⟩
    | true =>
      simp only [if_true]
      split
      · exact ⟨[45], by simp, by simp⟩
      · exact ⟨[], by simp, by simp⟩
  obtain ⟨sg, hsg, hsgall⟩ := hsign
  rcases hps : ParseInt.parseSign signed s with ⟨isneg, b1⟩
  rw [hps] at h hsg
  simp only [] at h hsg
  cases hfd : ParseInt.firstDigit bits b1 with
  | none => simp [hfd] at h
  | some nb =>
    obtain ⟨n0, b2⟩ := nb
    simp only [hfd] at h
    have hb1 : ∃ d, b1 = d :: b2 ∧ d < 128 := by
      unfold ParseInt.firstDigit at hfd
      cases b1 with
      | nil => simp at hfd
      | cons d r =>
        by_cases hd : ParseInt.isDigit d = true
        · simp only [hd, if_true, Option.some.injEq, Prod.mk.injEq] at hfd
          exact ⟨d, by rw [hfd.2], isDigit_lt hd⟩
        · simp [hd] at hfd
    obtain ⟨d, hd1, hd2⟩ := hb1
    cases hacc : ParseInt.accLoop bits b2 n0 with
    | none => simp [hacc] at h
    | some nr =>
      obtain ⟨num, rest'⟩ := nr
      simp only [hacc] at h
      cases hap : ParseInt.applySign signed bits num isneg with
      | none => simp [hap] at h
      | some v' =>
        simp only [hap, Option.some.injEq, Prod.mk.injEq] at h
        obtain ⟨pre, hp, hall⟩ := accLoop_prefix bits b2 n0 num rest' hacc
        refine ⟨sg ++ d :: pre, ?_, ?_⟩
        · rw [hsg, hd1, hp, ← h.2]; simp
        · intro x hx
          simp only [List.mem_append, List.mem_cons] at hx
          rcases hx with hx | rfl | hx
          · exact hsgall x hx
          · exact hd2
          · exact hall x hx

theorem parseIntegerPrefix_bnd {signed : Bool} {bits : Nat} {s : List Nat} {v : Int} {n : Nat}
    (hv : Valid s) (h : ParseInt.parseIntegerPrefix signed bits s = some (v, n)) : Bnd s n := by
  unfold ParseInt.parseIntegerPrefix at h
  cases hb : ParseInt.parseIntegerBody signed bits s with
  | none => simp [hb] at h
  | some vr =>
    obtain ⟨v', rest⟩ := vr
    simp only [hb, Option.map_some, Option.some.injEq, Prod.mk.injEq] at h
    obtain ⟨pre, hp, hall⟩ := parseIntegerBody_prefix signed bits s v' rest hb
    have := bnd_ascii_prefix pre hv hp hall
    have hn : n = pre.length := by rw [← h.2, hp]; simp
    rw [hn]; exact this

theorem parseBoolPrefix_bnd {s : List Nat} {b : Bool} {n : Nat}
    (hv : Valid s) (h : ParseInt.parseBoolPrefix s = some (b, n)) : Bnd s n := by
  unfold ParseInt.parseBoolPrefix at h
  split at h
  · next rest =>
    simp only [Option.some.injEq, Prod.mk.injEq] at h
    rw [← h.2]
    exact bnd_ascii_prefix [116, 114, 117, 101] hv (rest := rest) (by simp) (by simp)
  · next rest =>
    simp only [Option.some.injEq, Prod.mk.injEq] at h
    rw [← h.2]
    exact bnd_ascii_prefix [102, 97, 108, 115, 101] hv (rest := rest) (by simp) (by simp)
  · cases h

/-! ### skip / skip_back round to a boundary -/

theorem skipUp_spec (bytes : List Nat) : ∀ (fuel n : Nat), n ≤ bytes.length → bytes.length - n < fuel →
    n ≤ skipUp bytes fuel n ∧ Bnd bytes (skipUp bytes fuel n) := by
  intro fuel
  induction fuel with
  | zero => intro n _ h; omega
  | succ f ih =>
    intro n hn hf
    unfold skipUp
    by_cases hb : Utf8.isCharBoundaryBytes bytes n = true
    · simp only [hb, if_true]; exact ⟨Nat.le_refl _, hb⟩
    · simp only [hb]
      have hne : n ≠ bytes.length := by
        intro he; rw [he] at hb; exact hb (bnd_len bytes)
      have := ih (n + 1) (by omega) (by omega)
      simp only [Bool.false_eq_true, if_false]
      exact ⟨by omega, this.2⟩

theorem skipDown_spec (bytes : List Nat) (h0 : Bnd bytes 0) : ∀ (pos : Nat),
    ∃ k, skipDown bytes pos = some k ∧ k ≤ pos ∧ Bnd bytes k := by
  intro pos
  induction pos with
  | zero => exact ⟨0, by simp [skipDown, show Utf8.isCharBoundaryBytes bytes 0 = true from h0], Nat.le_refl _, h0⟩
  | succ p ih =>
    unfold skipDown
    by_cases hb : Utf8.isCharBoundaryBytes bytes (p + 1) = true
    · exact ⟨p + 1, by simp [hb], Nat.le_refl _, hb⟩
    · obtain ⟨k, hk, hle, hbk⟩ := ih
      exact ⟨k, by simp [hb, hk], by omega, hbk⟩

/-! ### what every operation guarantees -/

/-- `p'` keeps the sub-range `[a, b)` of `p`'s remainder (`a`, `b` char boundaries of it) and its
    `start_offset` advanced by exactly `a` -/
def Cut (p p' : Parser) : Prop :=
  ∃ a b, a ≤ b ∧ Bnd p.str a ∧ Bnd p.str b ∧
    p'.startOffset = p.startOffset + a ∧ p'.str = (p.str.take b).drop a

/-- result of an operation with direction `d` called on `p`: a successful one returns a `Cut` of `p`
    with `parse_direction = d`; a failing one an error carrying `p`'s offsets and `d`; no panic -/
def Good (d : ParseDirection) (p : Parser) (r : Res) : Prop :=
  match r with
  | .ok p' _ => Cut p p' ∧ p'.dir = d
  | .err e => e.startOffset = p.startOffset ∧ e.endOffset = p.startOffset + p.str.length ∧ e.dir = d
  | .panic => False

theorem cut_front {p p' : Parser} (h : FrontAt p.str p'.str)
    (hs : p'.startOffset = p.startOffset + (p.str.length - p'.str.length)) : Cut p p' := by
  obtain ⟨k, hk, hstr⟩ := h
  have hle := bnd_le hk
  refine ⟨k, p.str.length, hle, hk, bnd_len _, ?_, by rw [hstr]; simp⟩
  rw [hs, hstr, List.length_drop]; omega

theorem cut_back {p p' : Parser} (hv : Valid p.str) (h : BackAt p.str p'.str)
    (hs : p'.startOffset = p.startOffset) : Cut p p' := by
  obtain ⟨k, hk, hstr⟩ := h
  exact ⟨0, k, Nat.zero_le _, bnd_zero hv, hk, by rw [hs]; rfl, by rw [hstr]; simp⟩

theorem tryParsing_front (p : Parser) (code : Parser → Body)
    (h : match code { p with dir := .fromStart } with
         | .throw _ => True
         | .panic => False
         | .done _ self' => self'.startOffset = p.startOffset ∧ self'.dir = .fromStart ∧ FrontAt p.str self'.str) :
    Good .fromStart p (tryParsing p .fromStart code) := by
  unfold tryParsing
  simp only []
  cases hc : code { p with dir := .fromStart } with
  | throw k => simp [Good, ParseError.new]
  | panic => rw [hc] at h; exact h
  | done ret self' =>
    rw [hc] at h
    obtain ⟨h1, h2, h3⟩ := h
    refine ⟨cut_front h3 ?_, h2⟩
    simp [enableIfStartAdd, h1]

theorem tryParsing_back (p : Parser) (hv : Valid p.str) (code : Parser → Body)
    (h : match code { p with dir := .fromEnd } with
         | .throw _ => True
         | .panic => False
         | .done _ self' => self'.startOffset = p.startOffset ∧ self'.dir = .fromEnd ∧ BackAt p.str self'.str) :
    Good .fromEnd p (tryParsing p .fromEnd code) := by
  unfold tryParsing
  simp only []
  cases hc : code { p with dir := .fromEnd } with
  | throw k => simp [Good, ParseError.new]
  | panic => rw [hc] at h; exact h
  | done ret self' =>
    rw [hc] at h
    obtain ⟨h1, h2, h3⟩ := h
    exact ⟨cut_back hv h3 (by simp [enableIfStartAdd, h1]), h2⟩

theorem parsing_front (p : Parser) (code : Parser → Option Parser)
    (h : match code { p with dir := .fromStart } with
         | none => False
         | some self' => self'.startOffset = p.startOffset ∧ self'.dir = .fromStart ∧ FrontAt p.str self'.str) :
    Good .fromStart p (parsing p .fromStart code) := by
  unfold parsing
  simp only []
  cases hc : code { p with dir := .fromStart } with
  | none => rw [hc] at h; exact h
  | some self' =>
    rw [hc] at h
    obtain ⟨h1, h2, h3⟩ := h
    refine ⟨cut_front h3 ?_, h2⟩
    simp [enableIfStartAdd, h1]

theorem parsing_back (p : Parser) (hv : Valid p.str) (code : Parser → Option Parser)
    (h : match code { p with dir := .fromEnd } with
         | none => False
         | some self' => self'.startOffset = p.startOffset ∧ self'.dir = .fromEnd ∧ BackAt p.str self'.str) :
    Good .fromEnd p (parsing p .fromEnd code) := by
  unfold parsing
  simp only []
  cases hc : code { p with dir := .fromEnd } with
  | none => rw [hc] at h; exact h
  | some self' =>
    rw [hc] at h
    obtain ⟨h1, h2, h3⟩ := h
    exact ⟨cut_back hv h3 (by simp [enableIfStartAdd, h1]), h2⟩

theorem stripPrefix_good (p : Parser) (m : List Nat) (hv : Valid p.str) (hm : Valid m) :
    Good .fromStart p (stripPrefix p m) := by
  unfold stripPrefix
  apply tryParsing_front
  simp only []
  cases hx : StrFns.stripPrefix p.str m with
  | none => trivial
  | some x => exact ⟨rfl, rfl, stripPrefix_front hv hm hx⟩

theorem stripSuffix_good (p : Parser) (m : List Nat) (hv : Valid p.str) (hm : Valid m) :
    Good .fromEnd p (stripSuffix p m) := by
  unfold stripSuffix
  apply tryParsing_back p hv
  simp only []
  cases hx : StrFns.stripSuffix p.str m with
  | none => trivial
  | some x => exact ⟨rfl, rfl, stripSuffix_back hv hm hx⟩

theorem findSkip_good (p : Parser) (m : List Nat) (hv : Valid p.str) (hm : Valid m) :
    Good .fromStart p (findSkip p m) := by
  unfold findSkip
  apply tryParsing_front
  simp only []
  cases hx : StrFns.findSkip p.str m with
  | none => trivial
  | some x => exact ⟨rfl, rfl, findSkip_front hv hm hx⟩

theorem rfindSkip_good (p : Parser) (m : List Nat) (hv : Valid p.str) (hm : Valid m) :
    Good .fromEnd p (rfindSkip p m) := by
  unfold rfindSkip
  apply tryParsing_back p hv
  simp only []
  cases hx : StrFns.rfindSkip p.str m with
  | none => trivial
  | some x => exact ⟨rfl, rfl, rfindSkip_back hv hm hx⟩

theorem trimStart_good (p : Parser) (hv : Valid p.str) : Good .fromStart p (trimStart p) := by
  unfold trimStart
  apply parsing_front
  exact ⟨rfl, rfl, trimStart_front hv⟩

theorem trimEnd_good (p : Parser) (hv : Valid p.str) : Good .fromEnd p (trimEnd p) := by
  unfold trimEnd
  apply parsing_back p hv
  exact ⟨rfl, rfl, trimEnd_back p.str⟩

theorem trimStartMatches_good (p : Parser) (m : List Nat) (hv : Valid p.str) (hm : Valid m) :
    Good .fromStart p (trimStartMatches p m) := by
  unfold trimStartMatches
  apply parsing_front
  exact ⟨rfl, rfl, trimStartMatches_front hv hm⟩

theorem trimEndMatches_good (p : Parser) (m : List Nat) (hv : Valid p.str) (hm : Valid m) :
    Good .fromEnd p (trimEndMatches p m) := by
  unfold trimEndMatches
  apply parsing_back p hv
  exact ⟨rfl, rfl, trimEndMatches_back hv hm⟩

/-- trimming the start, then the end of what is left -/
theorem cut_both {p p' : Parser} {mid : List Nat} (hf : FrontAt p.str mid) (hb : BackAt mid p'.str)
    (hs : p'.startOffset = p.startOffset + (p.str.length - mid.length)) : Cut p p' := by
  obtain ⟨k1, hk1, hmid⟩ := hf
  obtain ⟨k2, hk2, hstr⟩ := hb
  have hle := bnd_le hk1
  subst hmid
  refine ⟨k1, k1 + k2, by omega, hk1, bnd_drop hle hk2, ?_, ?_⟩
  · rw [hs, List.length_drop]; omega
  · rw [hstr, List.drop_take]; simp

theorem trim_good (p : Parser) (hv : Valid p.str) : Good .fromBoth p (trim p) := by
  unfold trim
  refine ⟨cut_both (mid := (StrFns.trimStart p.str).apply p.str) (trimStart_front hv) (trimEnd_back _) rfl, rfl⟩

theorem trimMatches_good (p : Parser) (m : List Nat) (hv : Valid p.str) (hm : Valid m) :
    Good .fromBoth p (trimMatches p m) := by
  unfold trimMatches
  have hf := trimStartMatches_front hv hm
  refine ⟨cut_both (mid := (StrFns.trimStartMatches p.str m).apply p.str) hf
    (trimEndMatches_back (frontAt_valid hv hf) hm) rfl, rfl⟩

theorem split_good (p : Parser) (d : List Nat) (hv : Valid p.str) (hd : Valid d) :
    Good .fromStart p (split p d) := by
  unfold split
  apply tryParsing_front
  simp only []
  by_cases hfl : p.yieldedLastSplit = true
  · simp [hfl]
  · simp only [hfl, Bool.false_eq_true, if_false]
    obtain ⟨r, hr, _, hcut⟩ := splitOnce_cut hv hd
    rw [hr]
    cases r with
    | none =>
      simp only [strFrom_ok (bnd_len p.str)]
      exact ⟨rfl, rfl, ⟨p.str.length, bnd_len _, sliceFrom_apply' _ _⟩⟩
    | some ab =>
      obtain ⟨a, b⟩ := ab
      obtain ⟨i, _, _, hb2, _, hb⟩ := hcut a b rfl
      exact ⟨rfl, rfl, ⟨_, hb2, hb⟩⟩

theorem splitTerminator_good (p : Parser) (d : List Nat) (hv : Valid p.str) (hd : Valid d) :
    Good .fromStart p (splitTerminator p d) := by
  unfold splitTerminator
  apply tryParsing_front
  simp only []
  by_cases hfl : (p.str.isEmpty || p.yieldedLastSplit) = true
  · simp [hfl]
  · simp only [hfl, Bool.false_eq_true, if_false]
    obtain ⟨r, hr, _, hcut⟩ := splitOnce_cut hv hd
    rw [hr]
    cases r with
    | none => trivial
    | some ab =>
      obtain ⟨a, b⟩ := ab
      obtain ⟨i, _, _, hb2, _, hb⟩ := hcut a b rfl
      exact ⟨rfl, rfl, ⟨_, hb2, hb⟩⟩

theorem rsplit_good (p : Parser) (d : List Nat) (hv : Valid p.str) (hd : Valid d) :
    Good .fromEnd p (rsplit p d) := by
  unfold rsplit
  apply tryParsing_back p hv
  simp only []
  by_cases hfl : p.yieldedLastSplit = true
  · simp [hfl]
  · simp only [hfl, Bool.false_eq_true, if_false]
    obtain ⟨r, hr, _, hcut⟩ := rsplitOnce_cut hv hd
    rw [hr]
    cases r with
    | none =>
      simp only [strUpTo_ok (bnd_zero hv)]
      exact ⟨rfl, rfl, ⟨0, bnd_zero hv, sliceUpTo_apply' _ _⟩⟩
    | some ab =>
      obtain ⟨a, b⟩ := ab
      obtain ⟨i, _, hb1, _, ha, _⟩ := hcut a b rfl
      exact ⟨rfl, rfl, ⟨_, hb1, ha⟩⟩

theorem rsplitTerminator_good (p : Parser) (d : List Nat) (hv : Valid p.str) (hd : Valid d) :
    Good .fromEnd p (rsplitTerminator p d) := by
  unfold rsplitTerminator
  apply tryParsing_back p hv
  simp only []
  by_cases hfl : (p.str.isEmpty || p.yieldedLastSplit) = true
  · simp [hfl]
  · simp only [hfl, Bool.false_eq_true, if_false]
    obtain ⟨r, hr, _, hcut⟩ := rsplitOnce_cut hv hd
    rw [hr]
    cases r with
    | none => trivial
    | some ab =>
      obtain ⟨a, b⟩ := ab
      obtain ⟨i, _, hb1, _, ha, _⟩ := hcut a b rfl
      exact ⟨rfl, rfl, ⟨_, hb1, ha⟩⟩

theorem splitKeep_good (p : Parser) (d : List Nat) (hv : Valid p.str) (hd : Valid d) :
    Good .fromStart p (splitKeep p d) := by
  unfold splitKeep
  apply tryParsing_front
  simp only []
  by_cases hfl : p.yieldedLastSplit = true
  · simp [hfl]
  · simp only [hfl, Bool.false_eq_true, if_false]
    have hfind : StrFns.find p.str d = findSpec p.str d := Props.C04.find_eq_spec p.str d
    rw [hfind]
    cases hf : findSpec p.str d with
    | none =>
      simp only [strFrom_ok (bnd_len p.str)]
      exact ⟨rfl, rfl, ⟨p.str.length, bnd_len _, sliceFrom_apply' _ _⟩⟩
    | some pos =>
      have hb := (findSpec_bnd hv hd hf).1
      simp only [splitAt_ok hb]
      exact ⟨rfl, rfl, ⟨pos, hb, sliceFrom_apply' _ _⟩⟩

theorem skip_good (p : Parser) (n : Nat) : Good .fromStart p (skip p n) := by
  unfold skip
  simp only []
  generalize hk : (if n > p.str.length then p.str.length else skipUp p.str (p.str.length + 1) n) = k
  have hb : Bnd p.str k := by
    rw [← hk]
    by_cases hn : n > p.str.length
    · simp only [hn, if_true]; exact bnd_len _
    · simp only [hn, if_false]
      exact (skipUp_spec p.str (p.str.length + 1) n (by omega) (by omega)).2
  rw [strFrom_ok hb]
  have hle := bnd_le hb
  refine ⟨cut_front ⟨k, hb, sliceFrom_apply' _ _⟩ ?_, rfl⟩
  simp only [Parser.setStr, sliceFrom_apply', List.length_drop]
  omega

theorem skipBack_good (p : Parser) (n : Nat) (hv : Valid p.str) : Good .fromEnd p (skipBack p n) := by
  unfold skipBack
  simp only []
  obtain ⟨k, hk, _, hb⟩ := skipDown_spec p.str (bnd_zero hv) (p.str.length - n)
  rw [hk]
  simp only [strUpTo_ok hb]
  exact ⟨cut_back hv ⟨k, hb, sliceUpTo_apply' _ _⟩ rfl, rfl⟩

theorem parseInt_good (p : Parser) (signed : Bool) (bits : Nat) (hv : Valid p.str) :
    Good .fromStart p (parseInt p signed bits) := by
  unfold parseInt
  apply tryParsing_front
  simp only []
  cases hx : ParseInt.parseIntegerPrefix signed bits p.str with
  | none => trivial
  | some vn =>
    obtain ⟨v, n⟩ := vn
    have hb := parseIntegerPrefix_bnd hv hx
    simp only [strFrom_ok hb]
    exact ⟨rfl, rfl, ⟨n, hb, sliceFrom_apply' _ _⟩⟩

theorem parseBool_good (p : Parser) (hv : Valid p.str) : Good .fromStart p (parseBool p) := by
  unfold parseBool
  apply tryParsing_front
  simp only []
  cases hx : ParseInt.parseBoolPrefix p.str with
  | none => trivial
  | some vn =>
    obtain ⟨v, n⟩ := vn
    have hb := parseBoolPrefix_bnd hv hx
    simp only [strFrom_ok hb]
    exact ⟨rfl, rfl, ⟨n, hb, sliceFrom_apply' _ _⟩⟩

/-- every operation, every argument: on a parser whose remainder is a `&str`, with `&str`/`char`
    patterns, the result is `Good` for the operation's direction -/
theorem step_good (op : Op) (p : Parser) (hv : Valid p.str)
    (hpat : ∀ m, op.pattern = some m → Valid m) : Good op.direction p (step op p) := by
  cases op with
  | splitTerminator d => exact splitTerminator_good p d hv (hpat d rfl)
  | rsplitTerminator d => exact rsplitTerminator_good p d hv (hpat d rfl)
  | split d => exact split_good p d hv (hpat d rfl)
  | rsplit d => exact rsplit_good p d hv (hpat d rfl)
  | splitKeep d => exact splitKeep_good p d hv (hpat d rfl)
  | stripPrefix m => exact stripPrefix_good p m hv (hpat m rfl)
  | stripSuffix m => exact stripSuffix_good p m hv (hpat m rfl)
  | trim => exact trim_good p hv
  | trimStart => exact trimStart_good p hv
  | trimEnd => exact trimEnd_good p hv
  | trimMatches m => exact trimMatches_good p m hv (hpat m rfl)
  | trimStartMatches m => exact trimStartMatches_good p m hv (hpat m rfl)
  | trimEndMatches m => exact trimEndMatches_good p m hv (hpat m rfl)
  | findSkip m => exact findSkip_good p m hv (hpat m rfl)
  | rfindSkip m => exact rfindSkip_good p m hv (hpat m rfl)
  | skip n => exact skip_good p n
  | skipBack n => exact skipBack_good p n hv
  | parseInt s b => exact parseInt_good p s b hv
  | parseBool => exact parseBool_good p hv

/-! ### the invariant -/
open Konst.Spec.ParserInv

/-- the remainder of a parser that satisfies the invariant is a `&str` -/
theorem inv_valid {cs : List Nat} {base : Nat} {p : Parser} (hs : ∀ c ∈ cs, isScalar c = true)
    (h : Inv cs base p) : Valid p.str := by
  rw [h.str_eq]
  have := cut_valid cs hs (p.startOffset - base) (p.startOffset - base + p.str.length) h.lo h.hi
  simpa [Nat.add_sub_cancel_left] using this

/-- a `Cut` of a parser that satisfies the invariant satisfies it -/
theorem inv_cut {cs : List Nat} {base : Nat} {p p' : Parser} (hs : ∀ c ∈ cs, isScalar c = true)
    (h : Inv cs base p) (hc : Cut p p') : Inv cs base p' := by
  obtain ⟨a, b, hab, ha, hb, hstart, hstr⟩ := hc
  have hbase := h.base_le
  generalize hlo : p.startOffset - base = lo at *
  generalize hn : p.str.length = n at *
  have hstr0 : p.str = ((encs cs).drop lo).take n := by rw [← hn, ← hlo]; exact h.str_eq
  have hhi : Bnd (encs cs) (lo + n) := (bnd_iff_isBoundary cs hs _).mpr (by rw [← hn, ← hlo]; exact h.hi)
  have hlo_b : IsBoundary cs lo := by rw [← hlo]; exact h.lo
  have hlo_le : lo ≤ (encs cs).length := boundary_le cs lo hlo_b
  have hdn : Bnd ((encs cs).drop lo) n := bnd_of_drop hhi
  have hbn : b ≤ n := by have := bnd_le hb; omega
  rw [hstr0] at ha hb
  have ha' : Bnd (encs cs) (lo + a) := bnd_drop hlo_le (bnd_take hdn ha)
  have hb' : Bnd (encs cs) (lo + b) := bnd_drop hlo_le (bnd_take hdn hb)
  have hlen : p'.str.length = b - a := by
    rw [hstr, List.length_drop, List.length_take]; omega
  have hlo' : p'.startOffset - base = lo + a := by omega
  refine ⟨by omega, ?_, ?_, ?_⟩
  · rw [hlo', hlen, hstr, hstr0, List.take_take, Nat.min_eq_left hbn, List.drop_take, List.drop_drop]
  · rw [hlo']; exact (bnd_iff_isBoundary cs hs _).mp ha'
  · rw [hlo', hlen]
    have : lo + a + (b - a) = lo + b := by omega
    rw [this]; exact (bnd_iff_isBoundary cs hs _).mp hb'

theorem cut_length_le {p p' : Parser} (hc : Cut p p') : p'.str.length ≤ p.str.length := by
  obtain ⟨a, b, _, _, hb, _, hstr⟩ := hc
  have := bnd_le hb
  rw [hstr, List.length_drop, List.length_take]; omega

end Konst.Lemmas.Parser
