import KonstVerif.Model.ParseInt
import KonstVerif.Spec.ParseInt
/-
  Helper lemmas for C12 (core Lean only).
-/
namespace Konst.Lemmas.ParseInt
open Konst.ParseInt Konst.Spec.ParseInt

/-! ### lists -/

theorem dropWhile_nil_iff_all {α : Type} (p : α → Bool) (l : List α) :
    l.dropWhile p = [] ↔ l.all p = true := by
  induction l with
  | nil => simp
  | cons a l ih =>
    by_cases h : p a = true
    · simp [h, ih]
    · simp [h]

theorem takeWhile_eq_self_of_all {α : Type} (p : α → Bool) (l : List α) (h : l.all p = true) :
    l.takeWhile p = l := by
  induction l with
  | nil => simp
  | cons a l ih =>
    simp only [List.all_cons, Bool.and_eq_true] at h
    simp [h.1, ih h.2]

theorem length_dropWhile_le {α : Type} (p : α → Bool) (l : List α) : (l.dropWhile p).length ≤ l.length := by
  induction l with
  | nil => simp
  | cons a l ih =>
    by_cases h : p a = true
    · simp only [List.dropWhile_cons, h, if_true, List.length_cons]; omega
    · simp [h]

/-- the first element of what `dropWhile` leaves does not satisfy the predicate -/
theorem head_dropWhile_not {α : Type} (p : α → Bool) (l : List α) (x : α)
    (h : (l.dropWhile p).head? = some x) : p x = false := by
  induction l with
  | nil => simp at h
  | cons a l ih =>
    by_cases ha : p a = true
    · simp only [List.dropWhile_cons, ha, if_true] at h; exact ih h
    · simp only [List.dropWhile_cons, ha] at h
      simp at h; subst h; simpa using ha

/-! ### digits -/

theorem isDigit_eq (b : Nat) : isDigit b = isAsciiDigit b := by
  unfold isDigit isAsciiDigit
  by_cases h1 : 48 ≤ b <;> by_cases h2 : b ≤ 57 <;> simp [h1, h2]

theorem isDigit_fun : isDigit = isAsciiDigit := funext isDigit_eq

/-- exact value of a digit string continuing from `num` -/
def valFrom (num : Nat) (ds : List Nat) : Nat := ds.foldl (fun acc d => acc * 10 + (d - 48)) num

theorem decVal_eq (ds : List Nat) : decVal ds = valFrom 0 ds := by
  simp only [decVal, valFrom]

theorem valFrom_cons (num d : Nat) (ds : List Nat) :
    valFrom num (d :: ds) = valFrom (num * 10 + (d - 48)) ds := by
  simp only [valFrom, List.foldl_cons]

theorem valFrom_ge (ds : List Nat) : ∀ num, num ≤ valFrom num ds := by
  induction ds with
  | nil => intro num; simp [valFrom]
  | cons d ds ih =>
    intro num
    have := ih (num * 10 + (d - 48))
    rw [valFrom_cons]
    omega

theorem decVal_cons (d : Nat) (ds : List Nat) : decVal (d :: ds) = valFrom (d - 48) ds := by
  rw [decVal_eq, valFrom_cons]; simp

/-! ### powers of two -/

theorem two_pow_pred (bits : Nat) (h : 1 ≤ bits) : 2 ^ bits = 2 * 2 ^ (bits - 1) := by
  obtain ⟨k, rfl⟩ : ∃ k, bits = k + 1 := ⟨bits - 1, by omega⟩
  simp [Nat.pow_succ, Nat.mul_comm]

theorem ten_le_two_pow (bits : Nat) (h : 4 ≤ bits) : 10 ≤ 2 ^ bits := by
  have : 2 ^ 4 ≤ 2 ^ bits := Nat.pow_le_pow_right (by decide) h
  omega

theorem digitAs_eq (bits b : Nat) (hb : 4 ≤ bits) (hd : isDigit b = true) : digitAs bits b = b - 48 := by
  have := ten_le_two_pow bits hb
  unfold isDigit at hd
  simp only [Bool.and_eq_true, decide_eq_true_eq] at hd
  unfold digitAs
  exact Nat.mod_eq_of_lt (by omega)

/-! ### `MAX_POS`, `MAX_NEG`, the casts and `wrapping_neg` -/

theorem two_pow_pos (k : Nat) : 0 < 2 ^ k := Nat.pow_pos (by decide)

theorem maxPos_eq (bits : Nat) (h : 1 ≤ bits) : maxPos bits = 2 ^ (bits - 1) - 1 := by
  unfold maxPos asUnsigned tMax
  have h2 := two_pow_pred bits h
  have hpos := two_pow_pos (bits - 1)
  rw [Int.emod_eq_of_lt (by omega) (by omega)]
  omega

theorem maxNeg_eq (bits : Nat) (h : 1 ≤ bits) : maxNeg bits = 2 ^ (bits - 1) := by
  unfold maxNeg asUnsigned tMin
  have h2 := two_pow_pred bits h
  have hpos := two_pow_pos (bits - 1)
  have e1 : (-((2 ^ (bits - 1) : Nat) : Int)) =
      ((2 ^ (bits - 1) : Nat) : Int) + ((2 ^ bits : Nat) : Int) * (-1) := by omega
  rw [e1, Int.add_mul_emod_self_left, Int.emod_eq_of_lt (by omega) (by omega)]
  omega

/-- the signed branch of `@apply_sign` in closed form -/
theorem applySign_signed (bits num : Nat) (isneg : Bool) (h : 1 ≤ bits) :
    applySign true bits num isneg =
      if isneg then (if num ≤ 2 ^ (bits - 1) then some (-(num : Int)) else none)
      else (if num < 2 ^ (bits - 1) then some (num : Int) else none) := by
  have h2 := two_pow_pred bits h
  have hpos := two_pow_pos (bits - 1)
  unfold applySign
  simp only [if_true, maxPos_eq bits h, maxNeg_eq bits h]
  cases isneg with
  | true =>
    simp only [if_true]
    by_cases hle : num ≤ 2 ^ (bits - 1)
    · simp only [hle, if_true]
      congr 1
      unfold wrappingNeg asSigned tMin
      by_cases hlt : num < 2 ^ (bits - 1)
      · simp only [hlt, if_true]
        have : ¬ ((num : Int) = -((2 ^ (bits - 1) : Nat) : Int)) := by omega
        simp only [this, if_false]
      · have he : num = 2 ^ (bits - 1) := by omega
        simp only [hlt, if_false]
        have e : ((num : Int) - ((2 ^ bits : Nat) : Int)) = -((2 ^ (bits - 1) : Nat) : Int) := by omega
        simp only [e, if_true]
        omega
    · simp only [hle, if_false]
  | false =>
    simp only [Bool.false_eq_true, if_false]
    by_cases hlt : num < 2 ^ (bits - 1)
    · have : num ≤ 2 ^ (bits - 1) - 1 := by omega
      simp only [this, hlt, if_true, asSigned]
    · have : ¬ num ≤ 2 ^ (bits - 1) - 1 := by omega
      simp only [this, hlt, if_false]

/-! ### the accumulation loop -/

/-- one step: the two overflow flags together fire exactly when the exact value leaves the type -/
theorem step_flags (bits num b : Nat) (hb : 4 ≤ bits) (hd : isDigit b = true) :
    ((overflowingMul bits num 10).2 ||
      (overflowingAdd bits (overflowingMul bits num 10).1 (digitAs bits b)).2) = true
      ↔ 2 ^ bits ≤ num * 10 + (b - 48) := by
  rw [digitAs_eq bits b hb hd]
  unfold overflowingMul overflowingAdd
  simp only [Bool.or_eq_true, decide_eq_true_eq]
  by_cases h1 : 2 ^ bits ≤ num * 10
  · constructor
    · intro _; omega
    · intro _; exact Or.inl h1
  · have e1 : (num * 10) % 2 ^ bits = num * 10 := Nat.mod_eq_of_lt (by omega)
    rw [e1]
    constructor
    · intro h; cases h with
      | inl h => exact absurd h h1
      | inr h => exact h
    · intro h; exact Or.inr h

/-- without a flag the wrapped result is the exact one -/
theorem step_value (bits num b : Nat) (hb : 4 ≤ bits) (hd : isDigit b = true)
    (h : num * 10 + (b - 48) < 2 ^ bits) :
    (overflowingAdd bits (overflowingMul bits num 10).1 (digitAs bits b)).1 = num * 10 + (b - 48) := by
  rw [digitAs_eq bits b hb hd]
  unfold overflowingMul overflowingAdd
  simp only
  have e1 : (num * 10) % 2 ^ bits = num * 10 := Nat.mod_eq_of_lt (by omega)
  rw [e1]
  exact Nat.mod_eq_of_lt h

/-- the wrap-around loop computes the exact value of the maximal digit run, and throws exactly when
    that value does not fit the unsigned twin -/
theorem accLoop_eq (bits : Nat) (hb : 4 ≤ bits) : ∀ (bytes : List Nat) (num : Nat), num < 2 ^ bits →
    accLoop bits bytes num =
      if valFrom num (bytes.takeWhile isDigit) < 2 ^ bits
      then some (valFrom num (bytes.takeWhile isDigit), bytes.dropWhile isDigit) else none := by
  intro bytes
  induction bytes with
  | nil => intro num h; simp [accLoop, valFrom, h]
  | cons b rest ih =>
    intro num h
    rw [accLoop]
    by_cases hd : isDigit b = true
    · simp only [hd, if_true, List.takeWhile_cons, List.dropWhile_cons, valFrom_cons]
      have hf := step_flags bits num b hb hd
      by_cases hov : 2 ^ bits ≤ num * 10 + (b - 48)
      · have hge := valFrom_ge (List.takeWhile isDigit rest) (num * 10 + (b - 48))
        have hnot : ¬ valFrom (num * 10 + (b - 48)) (List.takeWhile isDigit rest) < 2 ^ bits := by omega
        simp only [hf.mpr hov, if_true, hnot, if_false]
      · have hfalse : ((overflowingMul bits num 10).2 ||
            (overflowingAdd bits (overflowingMul bits num 10).1 (digitAs bits b)).2) = false := by
          cases hx : ((overflowingMul bits num 10).2 ||
            (overflowingAdd bits (overflowingMul bits num 10).1 (digitAs bits b)).2) with
          | false => rfl
          | true => exact absurd (hf.mp hx) hov
        simp only [hfalse, Bool.false_eq_true, if_false]
        rw [step_value bits num b hb hd (by omega), ih _ (by omega)]
    · simp [hd, valFrom, h]

/-! ### assembling `parse_integer!` -/

/-- first digit + loop: the magnitude in the unsigned twin -/
def magPrefix (bits : Nat) (body : List Nat) : Option (Nat × List Nat) :=
  match firstDigit bits body with
  | none => none
  | some (n0, b2) => accLoop bits b2 n0

theorem magPrefix_eq (bits : Nat) (hb : 4 ≤ bits) (body : List Nat) :
    magPrefix bits body =
      if body.takeWhile isAsciiDigit ≠ [] ∧ decVal (body.takeWhile isAsciiDigit) < 2 ^ bits
      then some (decVal (body.takeWhile isAsciiDigit), body.dropWhile isAsciiDigit) else none := by
  rw [← isDigit_fun]
  unfold magPrefix firstDigit
  cases body with
  | nil => simp
  | cons b rest =>
    by_cases hd : isDigit b = true
    · have hlt : digitAs bits b < 2 ^ bits := by
        rw [digitAs_eq bits b hb hd]
        have := ten_le_two_pow bits hb
        unfold isDigit at hd
        simp only [Bool.and_eq_true, decide_eq_true_eq] at hd
        omega
      simp only [hd, if_true, List.takeWhile_cons, List.dropWhile_cons, decVal_cons]
      rw [accLoop_eq bits hb rest _ hlt, digitAs_eq bits b hb hd]
      simp
    · simp [hd]

theorem parseSign_eq (signed : Bool) (s : List Nat) :
    parseSign signed s = (hasMinus signed s, if hasMinus signed s = true then s.drop 1 else s) := by
  unfold parseSign hasMinus
  cases signed with
  | false => simp
  | true =>
    match s with
    | [] => simp
    | b :: rem =>
      by_cases h : b = 45
      · subst h; simp
      · simp only [if_true, Bool.true_and, List.head?_cons]
        have : (some b == some 45) = false := by simp [h]
        simp only [this, Bool.false_eq_true, if_false]
        split
        · rename_i heq; simp at heq; exact absurd heq.1 h
        · rfl

theorem parseIntegerBody_eq (signed : Bool) (bits : Nat) (s : List Nat) :
    parseIntegerBody signed bits s =
      match magPrefix bits (parseSign signed s).2 with
      | none => none
      | some (num, rest) =>
        match applySign signed bits num (parseSign signed s).1 with
        | none => none
        | some v => some (v, rest) := by
  unfold parseIntegerBody magPrefix
  generalize parseSign signed s = ps
  obtain ⟨isneg, b1⟩ := ps
  simp only []
  cases h1 : firstDigit bits b1 with
  | none => rfl
  | some p => obtain ⟨n0, b2⟩ := p; rfl

/-- the range test of the specification for `±D` in closed form -/
theorem inRange_unsigned (bits D : Nat) : inRange false bits (D : Int) = decide (D < 2 ^ bits) := by
  unfold inRange
  simp only [Bool.false_eq_true, if_false]
  by_cases h : D < 2 ^ bits
  · have : (0 : Int) ≤ (D : Int) ∧ (D : Int) < ((2 ^ bits : Nat) : Int) := ⟨by omega, by omega⟩
    rw [decide_eq_true this, decide_eq_true h]
  · have : ¬ ((0 : Int) ≤ (D : Int) ∧ (D : Int) < ((2 ^ bits : Nat) : Int)) := by omega
    rw [decide_eq_false this, decide_eq_false h]

theorem inRange_signed_pos (bits D : Nat) : inRange true bits (D : Int) = decide (D < 2 ^ (bits - 1)) := by
  unfold inRange
  simp only [if_true]
  by_cases h : D < 2 ^ (bits - 1)
  · have : -((2 ^ (bits - 1) : Nat) : Int) ≤ (D : Int) ∧ (D : Int) < ((2 ^ (bits - 1) : Nat) : Int) :=
      ⟨by omega, by omega⟩
    rw [decide_eq_true this, decide_eq_true h]
  · have : ¬ (-((2 ^ (bits - 1) : Nat) : Int) ≤ (D : Int) ∧ (D : Int) < ((2 ^ (bits - 1) : Nat) : Int)) := by
      omega
    rw [decide_eq_false this, decide_eq_false h]

theorem inRange_signed_neg (bits D : Nat) : inRange true bits (-(D : Int)) = decide (D ≤ 2 ^ (bits - 1)) := by
  unfold inRange
  simp only [if_true]
  have hpos := two_pow_pos (bits - 1)
  by_cases h : D ≤ 2 ^ (bits - 1)
  · have : -((2 ^ (bits - 1) : Nat) : Int) ≤ -(D : Int) ∧ -(D : Int) < ((2 ^ (bits - 1) : Nat) : Int) :=
      ⟨by omega, by omega⟩
    rw [decide_eq_true this, decide_eq_true h]
  · have : ¬ (-((2 ^ (bits - 1) : Nat) : Int) ≤ -(D : Int) ∧ -(D : Int) < ((2 ^ (bits - 1) : Nat) : Int)) := by
      omega
    rw [decide_eq_false this, decide_eq_false h]

/-- `parse_integer!` = the documented prefix parse (value and rest), for every type of at least 4 bits -/
theorem parseIntegerBody_eq_spec (signed : Bool) (bits : Nat) (hb : 4 ≤ bits) (s : List Nat) :
    parseIntegerBody signed bits s = prefixParseInt signed bits s := by
  have h1 : 1 ≤ bits := by omega
  have h2 := two_pow_pred bits h1
  have hpos := two_pow_pos (bits - 1)
  rw [parseIntegerBody_eq, parseSign_eq]
  unfold prefixParseInt
  simp only []
  generalize hbody : (if hasMinus signed s = true then s.drop 1 else s) = body
  rw [magPrefix_eq bits hb]
  by_cases hne : List.takeWhile isAsciiDigit body = []
  · simp [hne]
  · generalize hD : decVal (List.takeWhile isAsciiDigit body) = D
    by_cases hfit : D < 2 ^ bits
    · simp only [hne, hfit, ne_eq, not_false_eq_true, and_self, if_true, true_and]
      cases signed with
      | false =>
        have hm : hasMinus false s = false := by simp [hasMinus]
        simp only [hm, applySign, Bool.false_eq_true, if_false, inRange_unsigned, hfit, decide_true, if_true]
      | true =>
        rw [applySign_signed bits D _ h1]
        cases hm : hasMinus true s with
        | true =>
          simp only [if_true, inRange_signed_neg]
          by_cases hle : D ≤ 2 ^ (bits - 1)
          · simp [hle]
          · simp [hle]
        | false =>
          simp only [Bool.false_eq_true, if_false, inRange_signed_pos]
          by_cases hlt : D < 2 ^ (bits - 1)
          · simp [hlt]
          · simp [hlt]
    · simp only [hne, hfit, ne_eq, not_false_eq_true, and_false, if_false, true_and]
      cases signed with
      | false =>
        have hm : hasMinus false s = false := by simp [hasMinus]
        simp [hm, inRange_unsigned, hfit]
      | true =>
        cases hm : hasMinus true s with
        | true =>
          have : ¬ D ≤ 2 ^ (bits - 1) := by omega
          simp [inRange_signed_neg, this]
        | false =>
          have : ¬ D < 2 ^ (bits - 1) := by omega
          simp [inRange_signed_pos, this]

/-! ### `try_parsing!` -/

theorem tryParsing_eq {α : Type} (p : MiniParser) (kind : ErrorKind) (body : List Nat → Option (α × Nat)) :
    tryParsingFromStart p kind body =
      match body p.str with
      | none => .error { startOffset := p.startOffset, endOffset := p.startOffset + p.str.length,
                         dir := .fromStart, kind := kind }
      | some (ret, n) =>
        .ok (ret, { dir := .fromStart,
                    startOffset := p.startOffset + (p.str.length - (p.str.drop n).length),
                    str := p.str.drop n }) := by
  unfold tryParsingFromStart
  simp only []
  cases h : body p.str with
  | none => rfl
  | some r => obtain ⟨ret, n⟩ := r; rfl

/-! ### further facts used by Props/C12 -/

theorem mem_takeWhile_imp {α : Type} (p : α → Bool) (l : List α) (x : α) (h : x ∈ l.takeWhile p) :
    p x = true := by
  induction l with
  | nil => simp at h
  | cons a l ih =>
    by_cases ha : p a = true
    · simp only [List.takeWhile_cons, ha, if_true, List.mem_cons] at h
      cases h with
      | inl h => subst h; exact ha
      | inr h => exact ih h
    · simp [ha] at h

theorem takeWhile_all (l : List Nat) : (l.takeWhile isAsciiDigit).all isAsciiDigit = true :=
  List.all_eq_true.mpr (fun x hx => mem_takeWhile_imp _ _ x hx)

theorem whole_of_prefix (signed : Bool) (bits : Nat) (s : List Nat) :
    (match prefixParseInt signed bits s with
      | some (v, rest) => if rest.isEmpty = true then some v else none
      | none => none) = stdParseInt signed bits s := by
  unfold prefixParseInt stdParseInt
  simp only []
  generalize (if hasMinus signed s = true then s.drop 1 else s) = body
  by_cases hall : body.all isAsciiDigit = true
  · have ht := takeWhile_eq_self_of_all _ _ hall
    have hd := (dropWhile_nil_iff_all isAsciiDigit body).mpr hall
    rw [ht, hd]
    generalize (if hasMinus signed s = true then -(decVal body : Int) else (decVal body : Int)) = v
    by_cases hc : body ≠ [] ∧ inRange signed bits v = true
    · have hc' : body ≠ [] ∧ body.all isAsciiDigit = true ∧ inRange signed bits v = true := ⟨hc.1, hall, hc.2⟩
      rw [if_pos hc, if_pos hc']; rfl
    · have hc' : ¬ (body ≠ [] ∧ body.all isAsciiDigit = true ∧ inRange signed bits v = true) :=
        fun h => hc ⟨h.1, h.2.2⟩
      rw [if_neg hc, if_neg hc']
  · have hd : body.dropWhile isAsciiDigit ≠ [] :=
      fun h => hall ((dropWhile_nil_iff_all isAsciiDigit body).mp h)
    have hE : (List.dropWhile isAsciiDigit body).isEmpty = false := by
      cases hx : List.dropWhile isAsciiDigit body with
      | nil => exact absurd hx hd
      | cons a t => rfl
    generalize (if hasMinus signed s = true then -(decVal body : Int) else (decVal body : Int)) = v
    generalize (if hasMinus signed s = true then -(decVal (List.takeWhile isAsciiDigit body) : Int)
      else (decVal (List.takeWhile isAsciiDigit body) : Int)) = w
    have hc' : ¬ (body ≠ [] ∧ body.all isAsciiDigit = true ∧ inRange signed bits v = true) :=
      fun h => hall h.2.1
    rw [if_neg hc']
    by_cases hc : List.takeWhile isAsciiDigit body ≠ [] ∧ inRange signed bits w = true
    · rw [if_pos hc]
      simp only [hE, Bool.false_eq_true, if_false]
    · rw [if_neg hc]

theorem tryParsing_error {α : Type} (p : MiniParser) (kind : ErrorKind) (body : List Nat → Option (α × Nat))
    (e : MiniError) (h : tryParsingFromStart p kind body = .error e) :
    e.startOffset = p.startOffset ∧ e.endOffset = p.startOffset + p.str.length ∧
      e.dir = .fromStart ∧ e.offset = p.startOffset ∧ e.kind = kind := by
  rw [tryParsing_eq] at h
  cases hb : body p.str with
  | none =>
    rw [hb] at h
    simp only [Except.error.injEq] at h
    subst h
    exact ⟨rfl, rfl, rfl, rfl, rfl⟩
  | some r =>
    obtain ⟨ret, n⟩ := r
    rw [hb] at h
    simp at h

theorem parseBoolPrefix_eq (s : List Nat) :
    parseBoolPrefix s = (prefixParseBool s).map fun (b, rest) => (b, s.length - rest.length) := by
  unfold prefixParseBool parseBoolPrefix trueBytes falseBytes
  split
  · simp [List.isPrefixOf]; omega
  · simp [List.isPrefixOf]; omega
  · rename_i h1 h2
    have ht : List.isPrefixOf [116, 114, 117, 101] s = false := by
      match s with
      | [] => rfl
      | [_] => simp [List.isPrefixOf]
      | [_, _] => simp [List.isPrefixOf]
      | [_, _, _] => simp [List.isPrefixOf]
      | a :: b :: c :: d :: t =>
        cases hx : List.isPrefixOf [116, 114, 117, 101] (a :: b :: c :: d :: t) with
        | false => rfl
        | true =>
          simp [List.isPrefixOf] at hx
          obtain ⟨rfl, rfl, rfl, rfl⟩ := hx
          exact absurd rfl (h1 t)
    have hf : List.isPrefixOf [102, 97, 108, 115, 101] s = false := by
      match s with
      | [] => rfl
      | [_] => simp [List.isPrefixOf]
      | [_, _] => simp [List.isPrefixOf]
      | [_, _, _] => simp [List.isPrefixOf]
      | [_, _, _, _] => simp [List.isPrefixOf]
      | a :: b :: c :: d :: e :: t =>
        cases hx : List.isPrefixOf [102, 97, 108, 115, 101] (a :: b :: c :: d :: e :: t) with
        | false => rfl
        | true =>
          simp [List.isPrefixOf] at hx
          obtain ⟨rfl, rfl, rfl, rfl, rfl⟩ := hx
          exact absurd rfl (h2 t)
    simp [ht, hf]

end Konst.Lemmas.ParseInt
