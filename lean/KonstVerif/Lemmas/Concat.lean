import KonstVerif.Model.Concat
import KonstVerif.Spec.Concat
/-
  Helper lemmas for C20 (concatenation half): the index-checked fill loop, the length pass,
  `encode_utf8` bit arithmetic, closure of `Utf8.Valid` under append, `from_utf8` accepts valid strings.
-/
namespace Konst.Concat
open Konst.Spec Konst.Spec.Concat

/-! ### vocabulary of the C20 statements -/

/-- the bytes `concat_strs` is going to write: each element through `as_bytesable().as_bytes()` -/
def written (arg : ConcatArg) : List Nat := (arg.elems.map Elem.bytes).flatten

/-- a well-formed macro argument: every `&str` is valid UTF-8, every `char` a scalar value -/
def ConcatArg.WF : ConcatArg → Prop
  | .chars cs => ∀ c ∈ cs, Utf8.isScalar c = true
  | .strs ss => ∀ s ∈ ss, Utf8.Valid s

/-- what std produces for the same argument: `<[&str]>::concat` / `chars.iter().collect::<String>()` -/
def stdOfArg : ConcatArg → List Nat
  | .chars cs => stdCollectChars cs
  | .strs ss => stdConcat ss

/-- the separator as std sees it: the `&str`, or the `char` encoded -/
def stdSep : SepArg → List Nat
  | .chr c => Utf8.enc c
  | .str s => s

/-- a well-formed separator -/
def SepArg.WF : SepArg → Prop
  | .chr c => Utf8.isScalar c = true
  | .str s => Utf8.Valid s

end Konst.Concat

namespace Konst.Lemmas.Concat
open Konst Konst.Concat Konst.Spec Konst.Spec.Concat

/-! ### the fill loop -/

/-- writing `bs` at the end of the written prefix `pre` of a buffer `pre ++ fil`: succeeds iff the
    unwritten part `fil` is long enough, and then overwrites exactly its first `bs.length` slots -/
theorem writeBytes_eq {α : Type} (bs pre fil : List α) :
    writeBytes bs (pre ++ fil) pre.length =
      if bs.length ≤ fil.length then .ok (pre ++ bs ++ fil.drop bs.length, pre.length + bs.length)
      else .panic .index := by
  induction bs generalizing pre fil with
  | nil => simp [writeBytes]
  | cons b bs ih =>
    cases fil with
    | nil => simp [writeBytes]
    | cons f fil =>
      have h : pre.length < (pre ++ f :: fil).length := by simp
      have hs : (pre ++ f :: fil).set pre.length b = (pre ++ [b]) ++ fil := by
        simp
      rw [writeBytes, if_pos h, hs]
      have := ih (pre ++ [b]) fil
      simp only [List.length_append, List.length_cons, List.length_nil, Nat.zero_add] at this
      rw [this]
      by_cases hl : bs.length ≤ fil.length
      · simp [hl, Nat.add_assoc, Nat.add_comm 1]
      · simp [hl]

/-- the fill loop over a list of pieces -/
theorem sliceFillLoop_eq {α : Type} (ss : List (List α)) (pre fil : List α) :
    sliceFillLoop ss (pre ++ fil) pre.length =
      if ss.flatten.length ≤ fil.length then
        .ok (pre ++ ss.flatten ++ fil.drop ss.flatten.length, pre.length + ss.flatten.length)
      else .panic .index := by
  induction ss generalizing pre fil with
  | nil => simp [sliceFillLoop]
  | cons s ss ih =>
    rw [sliceFillLoop, writeBytes_eq, List.flatten_cons]
    by_cases hs : s.length ≤ fil.length
    · rw [if_pos hs]
      simp only [Out.ok_bind]
      have := ih (pre ++ s) (fil.drop s.length)
      simp only [List.length_append] at this
      rw [this]
      generalize ss.flatten = F
      simp only [List.length_append, List.length_drop, List.drop_drop]
      by_cases ht : F.length ≤ fil.length - s.length
      · have h2 : s.length + F.length ≤ fil.length := by omega
        rw [if_pos ht, if_pos h2]
        simp [Nat.add_assoc]
      · have h2 : ¬ s.length + F.length ≤ fil.length := by omega
        rw [if_neg ht, if_neg h2]
    · rw [if_neg hs]
      generalize ss.flatten = F
      have h2 : ¬ (s ++ F).length ≤ fil.length := by
        simp only [List.length_append]; omega
      rw [if_neg h2]
      rfl

/-- the whole fill of a fresh buffer `[x; n]`, keeping only the buffer -/
theorem fill_fresh {α : Type} (ss : List (List α)) (n : Nat) (x : α) :
    (sliceFillLoop ss (List.replicate n x) 0 >>= fun r => pure r.1) =
      if ss.flatten.length ≤ n then .ok (ss.flatten ++ List.replicate (n - ss.flatten.length) x)
      else .panic .index := by
  have := sliceFillLoop_eq ss [] (List.replicate n x)
  simp only [List.nil_append, List.length_nil, Nat.zero_add, List.length_replicate] at this
  rw [this]
  generalize ss.flatten = F
  by_cases h : F.length ≤ n
  · rw [if_pos h, if_pos h]; simp
  · rw [if_neg h, if_neg h]; rfl

theorem fillLoop_eq_slice (es : List Elem) (out : List Nat) (i : Nat) :
    fillLoop es out i = sliceFillLoop (es.map Elem.bytes) out i := by
  induction es generalizing out i with
  | nil => rfl
  | cons e es ih =>
    simp only [fillLoop, sliceFillLoop, List.map_cons]
    cases writeBytes e.bytes out i with
    | panic p => rfl
    | ok r => obtain ⟨o, k⟩ := r; simp only [Out.ok_bind]; exact ih o k

theorem joinRemLoop_eq_slice (sep : List Nat) (ss : List (List Nat)) (out : List Nat) (i : Nat) :
    joinRemLoop sep ss out i = sliceFillLoop (ss.flatMap fun s => [sep, s]) out i := by
  induction ss generalizing out i with
  | nil => rfl
  | cons s ss ih =>
    simp only [joinRemLoop, List.flatMap_cons, List.cons_append, List.nil_append, sliceFillLoop]
    cases writeBytes sep out i with
    | panic p => rfl
    | ok r =>
      obtain ⟨o, k⟩ := r
      simp only [Out.ok_bind]
      cases writeBytes s o k with
      | panic p => rfl
      | ok r => obtain ⟨o, k⟩ := r; simp only [Out.ok_bind]; exact ih o k

/-! ### the length pass -/

theorem sumLoop_eq (es : List Elem) (s : Nat) (hs : s < USIZE) :
    sumLoop es s =
      if s + (es.map Elem.len).sum < USIZE then .ok (s + (es.map Elem.len).sum)
      else .panic .overflow := by
  induction es generalizing s with
  | nil => simp [sumLoop, hs]
  | cons e es ih =>
    simp only [sumLoop, ckAdd, List.map_cons, List.sum_cons]
    by_cases h : s + e.len < USIZE
    · rw [if_pos h]; simp only [Out.ok_bind]; rw [ih _ h, Nat.add_assoc]
    · rw [if_neg h]
      have : ¬ s + (e.len + (es.map Elem.len).sum) < USIZE := by omega
      rw [if_neg this]; rfl

theorem sliceSumLoop_eq {α : Type} (ss : List (List α)) (s : Nat) (hs : s < USIZE) :
    sliceSumLoop ss s =
      if s + ss.flatten.length < USIZE then .ok (s + ss.flatten.length) else .panic .overflow := by
  induction ss generalizing s with
  | nil => simp [sliceSumLoop, hs]
  | cons x ss ih =>
    rw [sliceSumLoop, List.flatten_cons, List.length_append]
    generalize hF : ss.flatten.length = F at ih
    simp only [ckAdd]
    by_cases h : s + x.length < USIZE
    · rw [if_pos h]; simp only [Out.ok_bind]; rw [ih _ h, Nat.add_assoc]
    · rw [if_neg h]
      have : ¬ s + (x.length + F) < USIZE := by omega
      rw [if_neg this]; rfl

/-! ### `encode_utf8` -/

theorem lenUtf8_eq_clen (c : Nat) : lenUtf8 c = Utf8.clen c := rfl

private theorem or_C0 : ∀ x, x < 32 → 0xC0 ||| x = 0xC0 + x := by decide
private theorem or_80 : ∀ x, x < 64 → 0x80 ||| x = 0x80 + x := by decide
private theorem or_E0 : ∀ x, x < 16 → 0xE0 ||| x = 0xE0 + x := by decide
private theorem or_F0 : ∀ x, x < 8 → 0xF0 ||| x = 0xF0 + x := by decide

private theorem and_3F (x : Nat) : x &&& 0x3F = x % 64 := Nat.and_two_pow_sub_one_eq_mod x 6

/-- the shifts and masks of `encode_utf8` produce the RFC 3629 encoding (division form), for every
    value below 2^21 (every `char` is) -/
theorem encodeUtf8_eq_enc (c : Nat) (hc : c < 0x200000) : (encodeUtf8 c).asBytes = Utf8.enc c := by
  unfold encodeUtf8 Utf8.enc Utf8Encoded.asBytes asU8
  simp only [and_3F, Nat.shiftRight_eq_div_pow]
  by_cases h1 : c ≤ 127
  · simp only [h1, show c < 128 by omega, if_true]
    simp [Nat.mod_eq_of_lt (show c < 256 by omega)]
  · by_cases h2 : c ≤ 0x7FF
    · simp only [h1, h2, show ¬ c < 128 by omega, show c < 2048 by omega, if_true, if_false]
      have a : c / 2 ^ 6 % 256 = c / 64 := by omega
      have b : c % 64 % 256 = c % 64 := by omega
      rw [a, b, or_C0 _ (by omega), or_80 _ (by omega)]
      simp
    · by_cases h3 : c ≤ 0xFFFF
      · simp only [h1, h2, h3, show ¬ c < 128 by omega, show ¬ c < 2048 by omega,
          show c < 65536 by omega, if_true, if_false]
        have a : c / 2 ^ 12 % 256 = c / 4096 := by omega
        have b : c / 2 ^ 6 % 64 % 256 = c / 64 % 64 := by omega
        have d : c % 64 % 256 = c % 64 := by omega
        rw [a, b, d, or_E0 _ (by omega), or_80 _ (by omega), or_80 _ (by omega)]
        simp
      · simp only [h1, h2, h3, show ¬ c < 128 by omega, show ¬ c < 2048 by omega,
          show ¬ c < 65536 by omega, if_false]
        have a : c / 2 ^ 18 % 256 = c / 262144 := by omega
        have b : c / 2 ^ 12 % 64 % 256 = c / 4096 % 64 := by omega
        have b' : c / 2 ^ 6 % 64 % 256 = c / 64 % 64 := by omega
        have d : c % 64 % 256 = c % 64 := by omega
        rw [a, b, b', d, or_F0 _ (by omega), or_80 _ (by omega), or_80 _ (by omega), or_80 _ (by omega)]
        simp

theorem scalar_lt (c : Nat) (h : Utf8.isScalar c = true) : c < 0x110000 := by
  simp only [Utf8.isScalar, Bool.or_eq_true, Bool.and_eq_true, decide_eq_true_eq] at h
  omega

theorem enc_length (c : Nat) : (Utf8.enc c).length = Utf8.clen c := by
  unfold Utf8.enc Utf8.clen
  by_cases h1 : c < 128
  · simp only [h1, if_true, List.length_cons, List.length_nil]
  · by_cases h2 : c < 2048
    · simp only [h1, h2, if_true, if_false, List.length_cons, List.length_nil]
    · by_cases h3 : c < 65536
      · simp only [h1, h2, h3, if_true, if_false, List.length_cons, List.length_nil]
      · simp only [h1, h2, h3, if_false, List.length_cons, List.length_nil]

/-- `__ElemDispatch::len` is the length of what `as_bytesable().as_bytes()` yields -/
theorem Elem.len_eq (e : Elem) : e.len = e.bytes.length := by
  cases e with
  | str s => rfl
  | chr c =>
    simp only [Elem.len, Elem.bytes, lenUtf8, encodeUtf8, Utf8Encoded.asBytes]
    by_cases h1 : c < 0x80
    · simp only [h1, show c ≤ 127 by omega, if_true]; rfl
    · by_cases h2 : c < 0x800
      · simp only [h1, h2, show ¬ c ≤ 127 by omega, show c ≤ 2047 by omega, if_true, if_false]; rfl
      · by_cases h3 : c < 0x10000
        · simp only [h1, h2, h3, show ¬ c ≤ 127 by omega, show ¬ c ≤ 2047 by omega,
            show c ≤ 65535 by omega, if_true, if_false]; rfl
        · simp only [h1, h2, h3, show ¬ c ≤ 127 by omega, show ¬ c ≤ 2047 by omega,
            show ¬ c ≤ 65535 by omega, if_false]; rfl

theorem SepArg.len_eq (e : SepArg) : e.len = e.bytes.length := by
  cases e with
  | str s => rfl
  | chr c => exact Elem.len_eq (.chr c)

theorem sum_len_eq (es : List Elem) : (es.map Elem.len).sum = (es.map Elem.bytes).flatten.length := by
  induction es with
  | nil => rfl
  | cons e es ih => simp only [List.map_cons, List.sum_cons, List.flatten_cons, List.length_append, ih, Elem.len_eq]

/-! ### UTF-8 validity -/

theorem encs_append (a b : List Nat) : Utf8.encs (a ++ b) = Utf8.encs a ++ Utf8.encs b := by
  simp [Utf8.encs, List.flatMap_append]

theorem valid_nil : Utf8.Valid [] := ⟨[], by simp, rfl⟩

theorem valid_append {a b : List Nat} (ha : Utf8.Valid a) (hb : Utf8.Valid b) : Utf8.Valid (a ++ b) := by
  obtain ⟨ca, hca, rfl⟩ := ha
  obtain ⟨cb, hcb, rfl⟩ := hb
  refine ⟨ca ++ cb, ?_, (encs_append ca cb).symm⟩
  intro c hc
  rcases List.mem_append.mp hc with h | h
  · exact hca c h
  · exact hcb c h

theorem valid_enc {c : Nat} (h : Utf8.isScalar c = true) : Utf8.Valid (Utf8.enc c) :=
  ⟨[c], by simpa using h, by simp [Utf8.encs]⟩

theorem valid_encs {cs : List Nat} (h : ∀ c ∈ cs, Utf8.isScalar c = true) : Utf8.Valid (Utf8.encs cs) :=
  ⟨cs, h, rfl⟩

theorem valid_flatten {ss : List (List Nat)} (h : ∀ s ∈ ss, Utf8.Valid s) : Utf8.Valid ss.flatten := by
  induction ss with
  | nil => exact valid_nil
  | cons s ss ih =>
    rw [List.flatten_cons]
    exact valid_append (h s (by simp)) (ih fun t ht => h t (by simp [ht]))

/-- `join` written as the loop writes it: the first piece, then separator + piece for the rest -/
theorem intercalate_cons {α : Type} (sep first : List α) (rem : List (List α)) :
    List.intercalate sep (first :: rem) = first ++ (rem.flatMap fun s => [sep, s]).flatten := by
  induction rem generalizing first with
  | nil => simp [List.intercalate]
  | cons r rem ih =>
    have := ih r
    simp only [List.intercalate] at this ⊢
    rw [List.intersperse_cons_cons, List.flatten_cons, List.flatten_cons, this]
    simp [List.flatMap_cons]

theorem valid_intercalate {sep : List Nat} {ss : List (List Nat)} (hsep : Utf8.Valid sep)
    (h : ∀ s ∈ ss, Utf8.Valid s) : Utf8.Valid (List.intercalate sep ss) := by
  cases ss with
  | nil => simpa [List.intercalate] using valid_nil
  | cons first rem =>
    rw [intercalate_cons]
    refine valid_append (h first (by simp)) (valid_flatten ?_)
    intro t ht
    rcases List.mem_flatMap.mp ht with ⟨s, hs, hts⟩
    simp only [List.mem_cons, List.mem_nil_iff, or_false] at hts
    rcases hts with rfl | rfl
    · exact hsep
    · exact h _ (by simp [hs])

/-- the reference decoder reads back one encoded scalar value -/
theorem decodeOne_enc (c : Nat) (h : Utf8.isScalar c = true) (r : List Nat) :
    Utf8.decodeOne (Utf8.enc c ++ r) = some (c, r) := by
  have hlt := scalar_lt c h
  simp only [Utf8.isScalar, Bool.or_eq_true, Bool.and_eq_true, decide_eq_true_eq] at h
  unfold Utf8.enc
  by_cases h1 : c < 0x80
  · simp [h1, Utf8.decodeOne]
  · by_cases h2 : c < 0x800
    · simp only [h1, h2, if_true, if_false, List.cons_append, List.nil_append, Utf8.decodeOne, Utf8.isCont]
      simp only [show ¬ 0xC0 + c / 64 < 0x80 by omega, show ¬ 0xC0 + c / 64 < 0xC0 by omega,
        show 0xC0 + c / 64 < 0xE0 by omega, if_true, if_false]
      simp only [show (0x80 ≤ 0x80 + c % 64) by omega, show 0x80 + c % 64 < 0xC0 by omega, decide_true,
        Bool.and_self, if_true]
      have : (0xC0 + c / 64 - 0xC0) * 64 + (0x80 + c % 64 - 0x80) = c := by omega
      simp only [this, show 0x80 ≤ c by omega, if_true]
    · by_cases h3 : c < 0x10000
      · simp only [h1, h2, h3, if_true, if_false, List.cons_append, List.nil_append, Utf8.decodeOne, Utf8.isCont]
        simp only [show ¬ 0xE0 + c / 4096 < 0x80 by omega, show ¬ 0xE0 + c / 4096 < 0xC0 by omega,
          show ¬ 0xE0 + c / 4096 < 0xE0 by omega, show 0xE0 + c / 4096 < 0xF0 by omega, if_true, if_false]
        simp only [show (0x80 ≤ 0x80 + c % 64) by omega, show 0x80 + c % 64 < 0xC0 by omega,
          show (0x80 ≤ 0x80 + c / 64 % 64) by omega, show 0x80 + c / 64 % 64 < 0xC0 by omega, decide_true,
          Bool.and_self, if_true]
        have : (0xE0 + c / 4096 - 0xE0) * 4096 + (0x80 + c / 64 % 64 - 0x80) * 64 + (0x80 + c % 64 - 0x80) = c := by
          omega
        simp only [this]
        have hs : Utf8.isScalar c = true := by
          simp only [Utf8.isScalar, Bool.or_eq_true, Bool.and_eq_true, decide_eq_true_eq]; exact h
        simp [hs, show 0x800 ≤ c by omega]
      · simp only [h1, h2, h3, if_false, List.cons_append, List.nil_append, Utf8.decodeOne, Utf8.isCont]
        simp only [show ¬ 0xF0 + c / 262144 < 0x80 by omega, show ¬ 0xF0 + c / 262144 < 0xC0 by omega,
          show ¬ 0xF0 + c / 262144 < 0xE0 by omega, show ¬ 0xF0 + c / 262144 < 0xF0 by omega,
          show 0xF0 + c / 262144 < 0xF8 by omega, if_true, if_false]
        simp only [show (0x80 ≤ 0x80 + c % 64) by omega, show 0x80 + c % 64 < 0xC0 by omega,
          show (0x80 ≤ 0x80 + c / 64 % 64) by omega, show 0x80 + c / 64 % 64 < 0xC0 by omega,
          show (0x80 ≤ 0x80 + c / 4096 % 64) by omega, show 0x80 + c / 4096 % 64 < 0xC0 by omega, decide_true,
          Bool.and_self, if_true]
        have : (0xF0 + c / 262144 - 0xF0) * 262144 + (0x80 + c / 4096 % 64 - 0x80) * 4096
            + (0x80 + c / 64 % 64 - 0x80) * 64 + (0x80 + c % 64 - 0x80) = c := by omega
        simp only [this]
        have hs : Utf8.isScalar c = true := by
          simp only [Utf8.isScalar, Bool.or_eq_true, Bool.and_eq_true, decide_eq_true_eq]; exact h
        simp [hs, show 0x10000 ≤ c by omega]

theorem enc_ne_nil (c : Nat) : Utf8.enc c ≠ [] := by
  unfold Utf8.enc
  repeat' split
  all_goals simp

theorem utf8Scan_encs (cs : List Nat) (h : ∀ c ∈ cs, Utf8.isScalar c = true) (fuel pos : Nat)
    (hf : (Utf8.encs cs).length ≤ fuel) : utf8Scan fuel (Utf8.encs cs) pos = none := by
  induction cs generalizing fuel pos with
  | nil => simp [Utf8.encs, utf8Scan]
  | cons c cs ih =>
    have hc : Utf8.encs (c :: cs) = Utf8.enc c ++ Utf8.encs cs := by simp [Utf8.encs]
    rw [hc] at hf ⊢
    have hd := decodeOne_enc c (h c (by simp)) (Utf8.encs cs)
    cases hx : Utf8.enc c ++ Utf8.encs cs with
    | nil => simp [enc_ne_nil c] at hx
    | cons x xs =>
      rw [hx] at hd hf
      cases fuel with
      | zero => simp at hf
      | succ f =>
        simp only [utf8Scan, hd]
        apply ih (fun d hd => h d (by simp [hd]))
        have : (x :: xs).length = (Utf8.enc c).length + (Utf8.encs cs).length := by
          rw [← hx, List.length_append]
        have : 0 < (Utf8.enc c).length := List.length_pos_iff.mpr (enc_ne_nil c)
        simp only [List.length_cons] at *
        omega

/-- `core::str::from_utf8` accepts every valid string (the re-validation of the macros cannot fail) -/
theorem stdFromUtf8_of_valid {s : List Nat} (h : Utf8.Valid s) : stdFromUtf8 s = .ok s := by
  obtain ⟨cs, hcs, rfl⟩ := h
  simp only [stdFromUtf8, utf8Scan_encs cs hcs _ 0 (Nat.le_refl _)]

/-! ### `str_from_iter!` passes -/

theorem initElem_eq_write (bs : List Nat) (arr : List (Option Nat)) (i : Nat) :
    initElem bs arr i = (writeBytes (bs.map some) arr i >>= fun r => pure r.1) := by
  induction bs generalizing arr i with
  | nil => rfl
  | cons b bs ih =>
    simp only [initElem, List.map_cons, writeBytes]
    by_cases h : i < arr.length
    · rw [if_pos h, if_pos h]; exact ih _ _
    · rw [if_neg h, if_neg h]; rfl

theorem collectLoop_false (es : List Elem) (arr : List (Option Nat)) (s : Nat) :
    collectLoop false es arr s = (sumLoop es s >>= fun n => pure (arr, n)) := by
  induction es generalizing s with
  | nil => rfl
  | cons e es ih =>
    simp only [collectLoop, sumLoop, Bool.false_eq_true, if_false, Out.pure_eq, Out.ok_bind]
    cases ckAdd s e.len with
    | panic p => rfl
    | ok n => simp only [Out.ok_bind]; exact ih n

/-- the fill pass on a buffer whose first `pre.length` slots are written: every item lands right
    after the previous one; fails (index) iff the items need more room than is left -/
theorem collectLoop_true (es : List Elem) (pre fil : List (Option Nat))
    (hcap : pre.length + fil.length < USIZE) :
    collectLoop true es (pre ++ fil) pre.length =
      if (es.map Elem.bytes).flatten.length ≤ fil.length then
        .ok (pre ++ (es.map Elem.bytes).flatten.map some ++ fil.drop (es.map Elem.bytes).flatten.length,
             pre.length + (es.map Elem.bytes).flatten.length)
      else .panic .index := by
  induction es generalizing pre fil with
  | nil => simp [collectLoop]
  | cons e es ih =>
    simp only [collectLoop, if_true, List.map_cons, List.flatten_cons]
    rw [initElem_eq_write, writeBytes_eq]
    generalize hF : (es.map Elem.bytes).flatten = F at ih
    simp only [List.length_map, List.length_append]
    by_cases hs : e.bytes.length ≤ fil.length
    · rw [if_pos hs]
      simp only [Out.ok_bind, Out.pure_eq, ckAdd, Elem.len_eq]
      rw [if_pos (by omega)]
      simp only [Out.ok_bind]
      have := ih (pre ++ e.bytes.map some) (fil.drop e.bytes.length)
        (by simp only [List.length_append, List.length_map, List.length_drop]; omega)
      simp only [List.length_append, List.length_map] at this
      rw [this]
      simp only [List.length_drop, List.drop_drop, List.map_append]
      by_cases ht : F.length ≤ fil.length - e.bytes.length
      · rw [if_pos ht, if_pos (by omega)]
        simp [Nat.add_assoc]
      · rw [if_neg ht, if_neg (by omega)]
    · rw [if_neg hs, if_neg (by omega)]
      rfl

theorem assumeInit_map_some (l : List Nat) : assumeInit (l.map some) = .ok l := by
  induction l with
  | nil => rfl
  | cons b l ih => simp [assumeInit, ih]

/-! ### converse: what the reference `from_utf8` accepts is valid -/

theorem enc1 (c : Nat) (h : c < 0x80) : Utf8.enc c = [c] := by
  unfold Utf8.enc; rw [if_pos h]
theorem enc2 (c : Nat) (h1 : 0x80 ≤ c) (h2 : c < 0x800) : Utf8.enc c = [0xC0 + c / 64, 0x80 + c % 64] := by
  unfold Utf8.enc; rw [if_neg (by omega), if_pos h2]
theorem enc3 (c : Nat) (h1 : 0x800 ≤ c) (h2 : c < 0x10000) :
    Utf8.enc c = [0xE0 + c / 4096, 0x80 + c / 64 % 64, 0x80 + c % 64] := by
  unfold Utf8.enc; rw [if_neg (by omega), if_neg (by omega), if_pos h2]
theorem enc4 (c : Nat) (h1 : 0x10000 ≤ c) :
    Utf8.enc c = [0xF0 + c / 262144, 0x80 + c / 4096 % 64, 0x80 + c / 64 % 64, 0x80 + c % 64] := by
  unfold Utf8.enc; rw [if_neg (by omega), if_neg (by omega), if_neg (by omega)]

private theorem cont_iff (b : Nat) : Utf8.isCont b = true ↔ 0x80 ≤ b ∧ b < 0xC0 := by
  simp [Utf8.isCont]

theorem scalar_iff (c : Nat) : Utf8.isScalar c = true ↔ (c < 0xD800 ∨ (0xE000 ≤ c ∧ c < 0x110000)) := by
  simp [Utf8.isScalar]

theorem decodeOne_sound (s : List Nat) (c : Nat) (r : List Nat)
    (h : Utf8.decodeOne s = some (c, r)) : Utf8.isScalar c = true ∧ s = Utf8.enc c ++ r := by
  cases s with
  | nil => simp [Utf8.decodeOne] at h
  | cons a t =>
    simp only [Utf8.decodeOne] at h
    by_cases h1 : a < 0x80
    · simp only [h1, if_true, Option.some.injEq, Prod.mk.injEq] at h
      obtain ⟨rfl, rfl⟩ := h
      exact ⟨(scalar_iff _).mpr (by omega), by rw [enc1 _ h1]; rfl⟩
    · simp only [h1, if_false] at h
      by_cases h2 : a < 0xC0
      · simp [h2] at h
      · simp only [h2, if_false] at h
        by_cases h3 : a < 0xE0
        · simp only [h3, if_true] at h
          cases t with
          | nil => simp at h
          | cons b t =>
            simp only at h
            by_cases hb : Utf8.isCont b = true
            · simp only [hb, if_true] at h
              have hb' := (cont_iff b).mp hb
              generalize hv : (a - 0xC0) * 64 + (b - 0x80) = v at h
              by_cases hv1 : 0x80 ≤ v
              · simp only [hv1, if_true, Option.some.injEq, Prod.mk.injEq] at h
                obtain ⟨rfl, rfl⟩ := h
                refine ⟨(scalar_iff _).mpr (by omega), ?_⟩
                rw [enc2 v hv1 (by omega)]
                have e1 : a = 0xC0 + v / 64 := by omega
                have e2 : b = 0x80 + v % 64 := by omega
                rw [← e1, ← e2]; rfl
              · simp [hv1] at h
            · simp [hb] at h
        · simp only [h3, if_false] at h
          by_cases h4 : a < 0xF0
          · simp only [h4, if_true] at h
            match t, h with
            | [], h => simp at h
            | [_], h => simp at h
            | b :: d :: t, h =>
              simp only at h
              by_cases hb : Utf8.isCont b = true
              · by_cases hd : Utf8.isCont d = true
                · simp only [hb, hd, Bool.and_self, if_true] at h
                  have hb' := (cont_iff b).mp hb
                  have hd' := (cont_iff d).mp hd
                  generalize hv : (a - 0xE0) * 4096 + (b - 0x80) * 64 + (d - 0x80) = v at h
                  by_cases hv1 : 0x800 ≤ v
                  · by_cases hs : Utf8.isScalar v = true
                    · simp only [hv1, hs, decide_true, Bool.and_self, if_true, Option.some.injEq,
                        Prod.mk.injEq] at h
                      obtain ⟨rfl, rfl⟩ := h
                      refine ⟨hs, ?_⟩
                      rw [enc3 v hv1 (by omega)]
                      have e1 : a = 0xE0 + v / 4096 := by omega
                      have e2 : b = 0x80 + v / 64 % 64 := by omega
                      have e3 : d = 0x80 + v % 64 := by omega
                      rw [← e1, ← e2, ← e3]; rfl
                    · simp [hs] at h
                  · simp [hv1] at h
                · simp [hd] at h
              · simp [hb] at h
          · simp only [h4, if_false] at h
            by_cases h5 : a < 0xF8
            · simp only [h5, if_true] at h
              match t, h with
              | [], h => simp at h
              | [_], h => simp at h
              | [_, _], h => simp at h
              | b :: d :: e :: t, h =>
                simp only at h
                by_cases hb : Utf8.isCont b = true
                · by_cases hd : Utf8.isCont d = true
                  · by_cases he : Utf8.isCont e = true
                    · simp only [hb, hd, he, Bool.and_self, if_true] at h
                      have hb' := (cont_iff b).mp hb
                      have hd' := (cont_iff d).mp hd
                      have he' := (cont_iff e).mp he
                      generalize hv : (a - 0xF0) * 262144 + (b - 0x80) * 4096 + (d - 0x80) * 64 + (e - 0x80) = v at h
                      by_cases hv1 : 0x10000 ≤ v
                      · by_cases hs : Utf8.isScalar v = true
                        · simp only [hv1, hs, decide_true, Bool.and_self, if_true, Option.some.injEq,
                            Prod.mk.injEq] at h
                          obtain ⟨rfl, rfl⟩ := h
                          refine ⟨hs, ?_⟩
                          rw [enc4 v hv1]
                          have e1 : a = 0xF0 + v / 262144 := by omega
                          have e2 : b = 0x80 + v / 4096 % 64 := by omega
                          have e3 : d = 0x80 + v / 64 % 64 := by omega
                          have e4 : e = 0x80 + v % 64 := by omega
                          rw [← e1, ← e2, ← e3, ← e4]; rfl
                        · simp [hs] at h
                      · simp [hv1] at h
                    · simp [he] at h
                  · simp [hd] at h
                · simp [hb] at h
            · simp [h5] at h

theorem utf8Scan_sound (fuel : Nat) (s : List Nat) (pos : Nat) (h : utf8Scan fuel s pos = none) :
    Utf8.Valid s := by
  induction fuel generalizing s pos with
  | zero =>
    cases s with
    | nil => exact valid_nil
    | cons x xs => simp [utf8Scan] at h
  | succ f ih =>
    cases s with
    | nil => exact valid_nil
    | cons x xs =>
      simp only [utf8Scan] at h
      cases hd : Utf8.decodeOne (x :: xs) with
      | none => simp [hd] at h
      | some cr =>
        obtain ⟨c, r⟩ := cr
        simp only [hd] at h
        obtain ⟨hs, he⟩ := decodeOne_sound _ _ _ hd
        rw [he]
        exact valid_append (valid_enc hs) (ih r _ h)

/-- `core::str::from_utf8` (as specified) accepts exactly the valid strings -/
theorem stdFromUtf8_ok_iff (s : List Nat) : stdFromUtf8 s = .ok s ↔ Utf8.Valid s := by
  constructor
  · intro h
    simp only [stdFromUtf8] at h
    cases hs : utf8Scan s.length s 0 with
    | none => exact utf8Scan_sound _ _ _ hs
    | some p => simp [hs] at h
  · exact stdFromUtf8_of_valid

end Konst.Lemmas.Concat
