import KonstVerif.Model.ArrayMacros
import KonstVerif.Lemmas.ArrayBuilder
import KonstVerif.Lemmas.ArrayConsumer
import KonstVerif.Spec.ArrayStd
/-
  Loop lemmas for the array macros (C11/C15).
-/
namespace Konst.ArrayMacros
open Konst.ArrayBuilder (readInit readInit_map_some readInit_eq_some Builder)
open Konst.ArrayConsumer (Consumer)
variable {α β : Type}

/-- the `out` array after `done` has been written to its first slots -/
def outOf (len : Nat) (done : List β) : List (Option β) :=
  done.map some ++ List.replicate (len - done.length) none

theorem outOf_set {len : Nat} {done : List β} (v : β) (h : done.length < len) :
    (outOf len done).set done.length (some v) = outOf len (done ++ [v]) := by
  unfold outOf
  have : len - done.length = (len - (done ++ [v]).length) + 1 := by simp; omega
  rw [this, List.replicate_succ, List.set_append_right _ _ (by simp)]
  simp

theorem outOf_full {len : Nat} {done : List β} (h : done.length = len) :
    assumeInit (outOf len done) = .array done := by
  simp [assumeInit, outOf, h, readInit_map_some]

theorem outOf_nil (len : Nat) : outOf len ([] : List β) = List.replicate len none := by
  simp [outOf]

/-- hostile result of the by-reference loop for the first non-value outcome -/
def hostileRes : Outcome β → Res β
  | .brk => .panic
  | .cont => .diverge
  | .ret => .returned
  | .panic => .panic
  | .value _ => .ub           -- not used: the hypothesis excludes `value`

/-- all-values run: `rest i` is the list of values the closure yields from index `i` on -/
theorem mapLoop_value (len : Nat) (get : Nat → Option α) (c : Nat → α → Outcome β) (rest : Nat → List β)
    (hrest : ∀ i, i < len → ∃ a v, get i = some a ∧ c i a = .value v ∧ rest i = v :: rest (i + 1))
    (hend : rest len = []) :
    ∀ (k i fuel : Nat) (done : List β), len - i = k → i ≤ len → done.length = i → k < fuel →
      mapLoop len get c fuel i i (outOf len done) = .array (done ++ rest i) := by
  intro k
  induction k with
  | zero =>
    intro i fuel done hk hi hd hf
    have hil : i = len := by omega
    obtain ⟨f, rfl⟩ : ∃ f, fuel = f + 1 := ⟨fuel - 1, by omega⟩
    subst hil
    simp [mapLoop, afterLoop, outOf_full hd, hend]
  | succ k ih =>
    intro i fuel done hk hi hd hf
    have hil : i < len := by omega
    obtain ⟨f, rfl⟩ : ∃ f, fuel = f + 1 := ⟨fuel - 1, by omega⟩
    obtain ⟨a, v, hg, hc, hr⟩ := hrest i hil
    simp only [mapLoop, hil, if_true, hg, hc]
    rw [← hd, outOf_set v (by omega), hd]
    rw [ih (i + 1) f (done ++ [v]) (by omega) (by omega) (by simp [hd]) (by omega), hr]
    simp

/-- for ANY closure (stateful, hostile): the loop never reaches `assume_init` with an unwritten slot, and
    an array result has every slot written by a value the closure returned for that index -/
theorem mapLoop_sound (len : Nat) (get : Nat → Option α) (c : Nat → α → Outcome β) :
    ∀ (fuel t i : Nat) (done : List β), done.length = i → i ≤ len →
      mapLoop len get c fuel t i (outOf len done) ≠ .ub ∧
      ∀ l, mapLoop len get c fuel t i (outOf len done) = .array l →
        l.length = len ∧ l.take i = done ∧
        ∀ j v, i ≤ j → l[j]? = some v → ∃ t' a, get j = some a ∧ c t' a = .value v := by
  intro fuel
  induction fuel with
  | zero => intro t i done _ _; simp [mapLoop]
  | succ f ih =>
    intro t i done hd hi
    subst hd
    by_cases hil : done.length < len
    · simp only [mapLoop, hil, if_true]
      cases hg : get done.length with
      | none => simp
      | some a =>
        simp only []
        cases hc : c t a with
        | value v =>
          simp only []
          rw [outOf_set v hil]
          have := ih (t + 1) (done.length + 1) (done ++ [v]) (by simp) (by omega)
          refine ⟨this.1, ?_⟩
          intro l hl
          obtain ⟨h1, h2, h3⟩ := this.2 l hl
          have hli : l[done.length]? = some v := by
            have : (l.take (done.length + 1))[done.length]? = some v := by rw [h2]; simp
            rwa [List.getElem?_take_of_lt (by omega)] at this
          refine ⟨h1, ?_, ?_⟩
          · have : (l.take (done.length + 1)).take done.length = done := by rw [h2]; simp
            rwa [List.take_take, Nat.min_eq_left (by omega)] at this
          · intro j w hij hw
            by_cases hji : j = done.length
            · subst hji
              rw [hli] at hw; cases hw
              exact ⟨t, a, hg, hc⟩
            · exact h3 j w (by omega) hw
        | cont => exact ih (t + 1) done.length done rfl hi
        | brk => simp [afterLoop, Nat.ne_of_lt hil]
        | ret => simp
        | panic => simp
    · have hil' : done.length = len := by omega
      have hr : mapLoop len get c (f + 1) t done.length (outOf len done) = .array done := by
        simp only [mapLoop, afterLoop, hil', beq_self_eq_true, if_true, Nat.lt_irrefl, if_false]
        exact outOf_full hil'
      rw [hr]
      refine ⟨by simp, ?_⟩
      intro l hl
      cases hl
      refine ⟨hil', by simp, ?_⟩
      intro j v hij hv
      have : j < done.length := (List.getElem?_eq_some_iff.mp hv).1
      omega

/-- the first non-value outcome is at index `k` (for every call), earlier indices yield values -/
theorem mapLoop_hostile (len : Nat) (get : Nat → Option α) (c : Nat → α → Outcome β) (k : Nat) (o : Outcome β)
    (hk : k < len)
    (hget : ∀ i, i < len → ∃ a, get i = some a)
    (hpre : ∀ i, i < k → ∀ t a, get i = some a → ∃ v, c t a = .value v)
    (hat : ∀ t a, get k = some a → c t a = o) (ho : ∀ v, o ≠ .value v) :
    ∀ (fuel t i : Nat) (out : List (Option β)), i ≤ k →
      mapLoop len get c fuel t i out = if k - i < fuel then hostileRes o else .diverge := by
  intro fuel
  induction fuel with
  | zero => intro t i out _; simp [mapLoop]
  | succ f ih =>
    intro t i out hik
    have hil : i < len := by omega
    obtain ⟨a, hg⟩ := hget i hil
    simp only [mapLoop, hil, if_true, hg]
    by_cases hlt : i < k
    · obtain ⟨v, hv⟩ := hpre i hlt t a hg
      simp only [hv]
      rw [ih (t + 1) (i + 1) _ (by omega)]
      have : (k - (i + 1) < f) = (k - i < f + 1) := by
        apply propext; constructor <;> intro <;> omega
      simp only [this]
    · have hik' : i = k := by omega
      subst hik'
      have hc := hat t a hg
      rw [hc]
      cases o with
      | value v => exact absurd rfl (ho v)
      | brk => simp [afterLoop, Nat.ne_of_lt hil, hostileRes]
      | cont =>
        simp only []
        rw [ih (t + 1) i out (Nat.le_refl _)]
        simp [hostileRes]
      | ret => simp [hostileRes]
      | panic => simp [hostileRes]


/-! ### by-value loop -/

theorem byValFinish_eq {calls : List α} {cons : Consumer α} {bld : Builder β} {rem : List α} {acc : List β}
    (hc : ArrayConsumer.Wf cons rem) (hb : ArrayBuilder.Wf bld acc) :
    byValFinish calls cons bld =
      if acc.length = bld.n then ⟨.array acc, calls, [], [], rem⟩ else ⟨.panic, calls, acc, [], rem⟩ := by
  unfold byValFinish
  rw [ArrayConsumer.wf_asSlice hc, ArrayBuilder.wf_build hb]
  by_cases h : acc.length = bld.n
  · simp [h]
  · simp [h, ArrayBuilder.wf_dropped hb]

theorem byValUnwind_eq (r : Res β) {calls : List α} {cons : Consumer α} {bld : Builder β} {rem : List α}
    {acc : List β} (hc : ArrayConsumer.Wf cons rem) (hb : ArrayBuilder.Wf bld acc) :
    byValUnwind r calls cons bld = ⟨r, calls, acc, rem, []⟩ := by
  simp [byValUnwind, ArrayConsumer.wf_dropped hc, ArrayBuilder.wf_dropped hb]

/-- all-values run of the consumer/builder loop, with its ledger -/
theorem byValLoop_value (c : Nat → α → Outcome β) :
    ∀ (rem : List α) (vs : List β) (fuel t : Nat) (calls : List α) (cons : Consumer α) (bld : Builder β)
      (acc : List β),
      ArrayConsumer.Wf cons rem → ArrayBuilder.Wf bld acc → acc.length + rem.length = bld.n →
      rem.length < fuel → vs.length = rem.length →
      (∀ j a v, rem[j]? = some a → vs[j]? = some v → c (t + j) a = .value v) →
      byValLoop c fuel t calls cons bld = ⟨.array (acc ++ vs), calls ++ rem, [], [], []⟩ := by
  intro rem
  induction rem with
  | nil =>
    intro vs fuel t calls cons bld acc hc hb hn hf hvl _
    obtain ⟨fu, rfl⟩ : ∃ fu, fuel = fu + 1 := ⟨fuel - 1, by simp at hf; omega⟩
    simp only [byValLoop, ArrayConsumer.wf_next_nil hc]
    rw [byValFinish_eq hc hb]
    simp at hn hvl
    simp [hn, hvl]
  | cons x r ih =>
    intro vs fuel t calls cons bld acc hc hb hn hf hvl hv
    obtain ⟨fu, rfl⟩ : ∃ fu, fuel = fu + 1 := ⟨fuel - 1, by simp at hf; omega⟩
    obtain ⟨hnx, hc'⟩ := ArrayConsumer.wf_next_cons hc
    cases vs with
    | nil => simp at hvl
    | cons v vs' =>
      have hcx : c t x = .value v := by simpa using hv 0 x v (by simp) (by simp)
      simp only [List.length_cons] at hn hf hvl
      obtain ⟨bld', hp, hb', hn'⟩ := ArrayBuilder.wf_push_ok hb v (by omega)
      simp only [byValLoop, hnx, hcx, hp]
      rw [ih vs' fu (t + 1) (calls ++ [x]) _ bld' (acc ++ [v]) hc' hb' (by simp; omega) (by omega) (by omega)
        (by intro j a w hj hw
            have := hv (j + 1) a w (by simpa using hj) (by simpa using hw)
            rwa [show t + 1 + j = t + (j + 1) by omega])]
      simp

/-- for ANY closure: no UB, no divergence, the input ledger is exact, an array result is complete and
    made of closure values, leaks happen only on the panicking `break` path -/
theorem byValLoop_sound (c : Nat → α → Outcome β) :
    ∀ (rem : List α) (fuel t : Nat) (calls : List α) (cons : Consumer α) (bld : Builder β) (acc : List β),
      ArrayConsumer.Wf cons rem → ArrayBuilder.Wf bld acc → acc.length + rem.length ≤ bld.n →
      rem.length < fuel →
      (byValLoop c fuel t calls cons bld).res ≠ .ub ∧
      (byValLoop c fuel t calls cons bld).res ≠ .diverge ∧
      (byValLoop c fuel t calls cons bld).calls ++ (byValLoop c fuel t calls cons bld).droppedIn ++
          (byValLoop c fuel t calls cons bld).leakedIn = calls ++ rem ∧
      ((byValLoop c fuel t calls cons bld).leakedIn ≠ [] → (byValLoop c fuel t calls cons bld).res = .panic) ∧
      ((∀ l, (byValLoop c fuel t calls cons bld).res ≠ .array l) →
          (byValLoop c fuel t calls cons bld).droppedOut.take acc.length = acc) ∧
      ∀ l, (byValLoop c fuel t calls cons bld).res = .array l →
        l.length = bld.n ∧ (byValLoop c fuel t calls cons bld).calls = calls ++ rem ∧
        (byValLoop c fuel t calls cons bld).droppedIn = [] ∧ (byValLoop c fuel t calls cons bld).leakedIn = [] ∧
        (byValLoop c fuel t calls cons bld).droppedOut = [] ∧
        ∃ vs, l = acc ++ vs ∧ vs.length = rem.length ∧
          ∀ j a v, rem[j]? = some a → vs[j]? = some v → c (t + j) a = .value v := by
  intro rem
  induction rem with
  | nil =>
    intro fuel t calls cons bld acc hc hb hn hf
    obtain ⟨fu, rfl⟩ : ∃ fu, fuel = fu + 1 := ⟨fuel - 1, by simp at hf; omega⟩
    have : byValLoop c (fu + 1) t calls cons bld =
        if acc.length = bld.n then ⟨.array acc, calls, [], [], []⟩ else ⟨.panic, calls, acc, [], []⟩ := by
      simp only [byValLoop, ArrayConsumer.wf_next_nil hc]
      exact byValFinish_eq hc hb
    rw [this]
    by_cases h : acc.length = bld.n
    · simp only [h, if_true]
      refine ⟨by simp, by simp, by simp, by simp, by simp, ?_⟩
      intro l hl; cases hl
      exact ⟨h, by simp, trivial, trivial, trivial, [], by simp, rfl, by simp⟩
    · simp only [h, if_false]
      exact ⟨by simp, by simp, by simp, by simp, by simp, by simp⟩
  | cons x r ih =>
    intro fuel t calls cons bld acc hc hb hn hf
    obtain ⟨fu, rfl⟩ : ∃ fu, fuel = fu + 1 := ⟨fuel - 1, by simp at hf; omega⟩
    obtain ⟨hnx, hc'⟩ := ArrayConsumer.wf_next_cons hc
    simp only [List.length_cons] at hn hf
    have hlt : acc.length < bld.n := by omega
    cases hcx : c t x with
    | value v =>
      obtain ⟨bld', hp, hb', hn'⟩ := ArrayBuilder.wf_push_ok hb v hlt
      have heq : byValLoop c (fu + 1) t calls cons bld =
          byValLoop c fu (t + 1) (calls ++ [x]) { cons with takenFront := cons.takenFront + 1 } bld' := by
        simp only [byValLoop, hnx, hcx, hp]
      rw [heq]
      obtain ⟨h1, h2, h3, h4, h5, h6⟩ :=
        ih fu (t + 1) (calls ++ [x]) _ bld' (acc ++ [v]) hc' hb' (by simp; omega) (by omega)
      refine ⟨h1, h2, by simpa using h3, h4, ?_, ?_⟩
      · intro hna
        have := h5 hna
        have h' := congrArg (List.take acc.length) this
        simpa [List.take_take] using h'
      · intro l hl
        obtain ⟨g1, g2, g3, g4, g5, vs, g6, g7, g8⟩ := h6 l hl
        refine ⟨by omega, by simpa using g2, g3, g4, g5, v :: vs, by simp [g6], by simp [g7], ?_⟩
        intro j a w hj hw
        cases j with
        | zero => simp at hj hw; subst hj; subst hw; simpa using hcx
        | succ j =>
          have := g8 j a w (by simpa using hj) (by simpa using hw)
          rwa [show t + 1 + j = t + (j + 1) by omega] at this
    | cont =>
      have heq : byValLoop c (fu + 1) t calls cons bld =
          byValLoop c fu (t + 1) (calls ++ [x]) { cons with takenFront := cons.takenFront + 1 } bld := by
        simp only [byValLoop, hnx, hcx]
      rw [heq]
      obtain ⟨h1, h2, h3, h4, h5, h6⟩ :=
        ih fu (t + 1) (calls ++ [x]) _ bld acc hc' hb (by omega) (by omega)
      refine ⟨h1, h2, by simpa using h3, h4, h5, ?_⟩
      intro l hl
      obtain ⟨g1, _, _, _, _, vs, g6, g7, _⟩ := h6 l hl
      have : l.length = acc.length + r.length := by rw [g6]; simp [g7]
      omega
    | brk =>
      have heq : byValLoop c (fu + 1) t calls cons bld = ⟨.panic, calls ++ [x], acc, [], r⟩ := by
        simp only [byValLoop, hnx, hcx]
        rw [byValFinish_eq hc' hb]
        simp [Nat.ne_of_lt hlt]
      rw [heq]
      exact ⟨by simp, by simp, by simp, by simp, by simp, by simp⟩
    | ret =>
      have heq : byValLoop c (fu + 1) t calls cons bld = ⟨.returned, calls ++ [x], acc, r, []⟩ := by
        simp only [byValLoop, hnx, hcx]
        exact byValUnwind_eq _ hc' hb
      rw [heq]
      exact ⟨by simp, by simp, by simp, by simp, by simp, by simp⟩
    | panic =>
      have heq : byValLoop c (fu + 1) t calls cons bld = ⟨.panic, calls ++ [x], acc, r, []⟩ := by
        simp only [byValLoop, hnx, hcx]
        exact byValUnwind_eq _ hc' hb
      rw [heq]
      exact ⟨by simp, by simp, by simp, by simp, by simp, by simp⟩

/-! ### collect_const! -/
open Konst.Spec.ArrayStd (yielded)

theorem outOf_length {cap : Nat} {done : List β} (h : done.length ≤ cap) : (outOf cap done).length = cap := by
  simp [outOf]; omega

theorem ccLoop_count (src : List (Outcome β)) :
    ∀ (arr : List (Option β)) (len : Nat),
      ccLoop .computeLength src arr len = (yielded src).map (fun l => (arr, len + l.length)) := by
  induction src with
  | nil => intro arr len; simp [ccLoop, yielded, Except.map]
  | cons o r ih =>
    intro arr len
    cases o with
    | value v =>
      simp only [ccLoop, yielded, ih]
      cases yielded r <;> simp [Except.map]; omega
    | cont => simp only [ccLoop, yielded, ih]
    | brk => simp [ccLoop, yielded, Except.map]
    | ret => simp [ccLoop, yielded, Except.map]
    | panic => simp [ccLoop, yielded, Except.map]

theorem ccLoop_build_ok (cap : Nat) (src : List (Outcome β)) :
    ∀ (done l : List β), yielded src = .ok l → done.length + l.length ≤ cap →
      ccLoop .buildArray src (outOf cap done) done.length =
        .ok (outOf cap (done ++ l), done.length + l.length) := by
  induction src with
  | nil => intro done l h _; simp [yielded] at h; subst h; simp [ccLoop]
  | cons o r ih =>
    intro done l h hlen
    cases o with
    | value v =>
      simp only [yielded] at h
      cases hy : yielded r with
      | error e => simp [hy, Except.map] at h
      | ok l' =>
        simp [hy, Except.map] at h
        subst h
        simp only [List.length_cons] at hlen
        simp only [ccLoop, outOf_length (show done.length ≤ cap by omega),
          show done.length < cap by omega, if_true]
        rw [outOf_set v (by omega)]
        have := ih (done ++ [v]) l' hy (by simp; omega)
        simp only [List.length_append, List.length_cons, List.length_nil] at this
        rw [this]
        simp; omega
    | cont => simp only [yielded] at h; simp only [ccLoop]; exact ih done l h hlen
    | brk => simp [yielded] at h; subst h; simp [ccLoop]
    | ret => simp [yielded] at h
    | panic => simp [yielded] at h

theorem ccLoop_build_inv (cap : Nat) (src : List (Outcome β)) :
    ∀ (done : List β) (arr' : List (Option β)) (len' : Nat), done.length ≤ cap →
      ccLoop .buildArray src (outOf cap done) done.length = .ok (arr', len') →
      ∃ l, yielded src = .ok l ∧ arr' = outOf cap (done ++ l) ∧ len' = done.length + l.length ∧ len' ≤ cap := by
  induction src with
  | nil =>
    intro done arr' len' hd h
    simp [ccLoop] at h
    exact ⟨[], rfl, by simp [h.1], by simp [h.2], by omega⟩
  | cons o r ih =>
    intro done arr' len' hd h
    cases o with
    | value v =>
      simp only [ccLoop, outOf_length hd] at h
      by_cases hlt : done.length < cap
      · simp only [hlt, if_true] at h
        rw [outOf_set v hlt] at h
        have h' : ccLoop .buildArray r (outOf cap (done ++ [v])) (done ++ [v]).length = .ok (arr', len') := by
          simpa using h
        obtain ⟨l, h1, h2, h3, h4⟩ := ih (done ++ [v]) arr' len' (by simp; omega) h'
        exact ⟨v :: l, by simp [yielded, h1, Except.map], by simpa using h2, by simp at h3 ⊢; omega, h4⟩
      · simp [hlt] at h
    | cont => simp only [ccLoop] at h; simpa [yielded] using ih done arr' len' hd h
    | brk =>
      simp [ccLoop] at h
      exact ⟨[], rfl, by simp [h.1], by simp [h.2], by omega⟩
    | ret => simp [ccLoop] at h
    | panic => simp [ccLoop] at h

end Konst.ArrayMacros
