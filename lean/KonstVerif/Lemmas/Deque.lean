import KonstVerif.Model.Basic
/-
  Generic "a by-value double-ended iterator refines a deque" development (DESIGN.md A.5), shared by
  C07, C08 and C09.  The part between the namespace lines is textually the prototype
  `notes/prototypes/Deque.lean` (with `Dir` taken from `Konst`).
-/
namespace Konst.Deque
open Konst

structure DE (σ ι : Type) where
  next : σ → Option (ι × σ)
  nextBack : σ → Option (ι × σ)
  abs : σ → List ι
  next_none : ∀ s, next s = none → abs s = []
  next_some : ∀ s x s', next s = some (x, s') → abs s = x :: abs s'
  back_none : ∀ s, nextBack s = none → abs s = []
  back_some : ∀ s x s', nextBack s = some (x, s') → abs s = abs s' ++ [x]

-- running a history on the implementation state
def runImpl {σ ι} (I : DE σ ι) : σ → List Dir → List (Option ι)
  | _, [] => []
  | s, .f :: h => match I.next s with
      | none => none :: runImpl I s h
      | some (x, s') => some x :: runImpl I s' h
  | s, .b :: h => match I.nextBack s with
      | none => none :: runImpl I s h
      | some (x, s') => some x :: runImpl I s' h

-- running the same history on the abstract deque
def runDeque {ι} : List ι → List Dir → List (Option ι)
  | _, [] => []
  | [], _ :: h => none :: runDeque [] h
  | x :: xs, .f :: h => some x :: runDeque xs h
  | x :: xs, .b :: h => some ((x :: xs).getLast (by simp)) :: runDeque ((x :: xs).dropLast) h

theorem refine {σ ι} (I : DE σ ι) : ∀ (h : List Dir) (s : σ), runImpl I s h = runDeque (I.abs s) h := by
  intro h
  induction h with
  | nil => intro s; cases hs : I.abs s <;> simp [runImpl, runDeque]
  | cons d h ih =>
    intro s
    cases d with
    | f =>
      simp only [runImpl]
      cases hn : I.next s with
      | none =>
        have := I.next_none s hn
        simp only [this, runDeque]; rw [ih s, this]
      | some p =>
        obtain ⟨x, s'⟩ := p
        have := I.next_some s x s' hn
        simp only [this, runDeque]; rw [ih s']
    | b =>
      simp only [runImpl]
      cases hn : I.nextBack s with
      | none =>
        have := I.back_none s hn
        simp only [this, runDeque]; rw [ih s, this]
      | some p =>
        obtain ⟨x, s'⟩ := p
        have e := I.back_some s x s' hn
        dsimp only
        rw [ih s']
        cases ha : I.abs s with
        | nil => rw [ha] at e; simp at e
        | cons y ys =>
          simp only [runDeque]
          rw [ha] at e
          have h1 : (y :: ys).getLast (by simp) = x := by simp [e]
          have h2 : (y :: ys).dropLast = I.abs s' := by simp [e]
          rw [h1, h2]

end Konst.Deque
