import KonstVerif.Model.LitDecode
import KonstVerif.Spec.LitDecode
/-
  The scanner of `konst_proc_macros::parsing::parse_string` decodes every well-formed literal body
  to the string the Rust Reference assigns to it.
-/
set_option linter.unusedSimpArgs false

namespace Konst.Lit.Lemmas
open Konst.Lit Konst.Lit.Spec

theorem takeWhile_run {α : Type} (p : α → Bool) (t : List α) (x : α) (l : List α)
    (ht : ∀ c ∈ t, p c = true) (hx : p x = false) :
    (t ++ x :: l).takeWhile p = t ∧ (t ++ x :: l).dropWhile p = x :: l := by
  induction t with
  | nil => simp [List.takeWhile, List.dropWhile, hx]
  | cons a t ih =>
    have ha : p a = true := ht a (by simp)
    have ih' := ih (fun c hc => ht c (by simp [hc]))
    simp [List.takeWhile, List.dropWhile, ha, ih'.1, ih'.2]

theorem takeWhile_all {α : Type} (p : α → Bool) (t : List α) (ht : ∀ c ∈ t, p c = true) :
    t.takeWhile p = t ∧ t.dropWhile p = [] := by
  induction t with
  | nil => simp
  | cons a t ih =>
    have ha : p a = true := ht a (by simp)
    have ih' := ih (fun c hc => ht c (by simp [hc]))
    simp [List.takeWhile, List.dropWhile, ha, ih'.1, ih'.2]

theorem dropWhile_run {α : Type} (p : α → Bool) (t l : List α)
    (ht : ∀ c ∈ t, p c = true) (hl : ∀ c, l.head? = some c → p c = false) :
    (t ++ l).dropWhile p = l := by
  induction t with
  | nil =>
    cases l with
    | nil => rfl
    | cons x l => simp [List.dropWhile, hl x rfl]
  | cons a t ih =>
    have ha : p a = true := ht a (by simp)
    simp [List.dropWhile, ha, ih (fun c hc => ht c (by simp [hc]))]

theorem head_render (r : List (List Char × Esc)) (tail : List Char) :
    (renderSegs r tail).head? = (nextText r tail).head? := by
  cases r with
  | nil => rfl
  | cons s r =>
    obtain ⟨t, e⟩ := s
    cases t with
    | nil => simp [renderSegs, nextText]
    | cons a t => simp [renderSegs, nextText]

theorem le_toNat (c d : Char) (h : c ≤ d) : c.toNat ≤ d.toNat := by
  have : c.val ≤ d.val := h
  exact UInt32.le_iff_toNat_le.mp this

theorem hexDigit_lt (c : Char) (d : Nat) (h : hexDigitVal c = some d) : d < 16 := by
  have e0 : ('0' : Char).toNat = 48 := by decide
  have e9 : ('9' : Char).toNat = 57 := by decide
  have ea : ('a' : Char).toNat = 97 := by decide
  have ef : ('f' : Char).toNat = 102 := by decide
  have eA : ('A' : Char).toNat = 65 := by decide
  have eF : ('F' : Char).toNat = 70 := by decide
  unfold hexDigitVal at h
  split at h
  next hc =>
    have h1 := le_toNat _ _ hc.1; have h2 := le_toNat _ _ hc.2
    simp only [Option.some.injEq] at h; omega
  next =>
    split at h
    next hc =>
      have h1 := le_toNat _ _ hc.1; have h2 := le_toNat _ _ hc.2
      simp only [Option.some.injEq] at h; omega
    next =>
      split at h
      next hc =>
        have h1 := le_toNat _ _ hc.1; have h2 := le_toNat _ _ hc.2
        simp only [Option.some.injEq] at h; omega
      next => simp at h

/-- `u8::from_str_radix` on two hex digits = the reference value -/
theorem radix2 (h l : Char) (v : Nat) (hv : hexValue [h, l] = some v) :
    fromStrRadix16 [h, l] = some v := by
  unfold hexValue at hv
  simp only [List.foldl] at hv
  unfold fromStrRadix16
  simp only [fromStrRadix16.go]
  cases hh : hexDigitVal h with
  | none => simp [hh] at hv
  | some a =>
    cases hl : hexDigitVal l with
    | none => simp [hh, hl] at hv
    | some b =>
      simp only [hh, hl, Nat.zero_mul, Nat.zero_add, Option.some.injEq] at hv
      have ha : a < 16 := hexDigit_lt h a hh
      have hb : b < 16 := hexDigit_lt l b hl
      have h1 : 0 * 16 + a < 2 ^ 32 := by omega
      have h2 : (0 * 16 + a) * 16 + b < 2 ^ 32 := by omega
      simp only [h1, h2, if_true]
      simp; omega


private abbrev hexStep (acc : Option Nat) (c : Char) : Option Nat :=
  match acc, hexDigitVal c with
  | some a, some d => some (a * 16 + d)
  | _, _ => none

private theorem foldl_none (ds : List Char) : ds.foldl hexStep none = none := by
  induction ds with
  | nil => rfl
  | cons c r ih => simp [List.foldl, hexStep, ih]

theorem go_eq : ∀ (ds : List Char) (acc : Nat), ds.length ≤ 6 → acc < 16 ^ (6 - ds.length) →
    fromStrRadix16.go ds acc = ds.foldl hexStep (some acc) := by
  intro ds
  induction ds with
  | nil => intro acc _ _; simp [fromStrRadix16.go]
  | cons c r ih =>
    intro acc hl ha
    simp only [fromStrRadix16.go, List.foldl]
    cases hc : hexDigitVal c with
    | none => simp [hexStep, hc, foldl_none]
    | some d =>
      have hd := hexDigit_lt c d hc
      simp only [List.length_cons] at hl ha
      have hpow : 16 ^ (6 - r.length) = 16 ^ (6 - (r.length + 1)) * 16 := by
        have : 6 - r.length = (6 - (r.length + 1)) + 1 := by omega
        rw [this, Nat.pow_succ]
      have hbound : acc * 16 + d < 16 ^ (6 - r.length) := by rw [hpow]; omega
      have h32 : acc * 16 + d < 2 ^ 32 := by
        have : 16 ^ (6 - r.length) ≤ 16 ^ 6 := Nat.pow_le_pow_right (by decide) (by omega)
        have : (16 : Nat) ^ 6 < 2 ^ 32 := by decide
        omega
      simp only [h32, if_true, hexStep, hc]
      exact ih (acc * 16 + d) (by omega) hbound

theorem radix_eq (ds : List Char) (hne : ds ≠ []) (hl : ds.length ≤ 6) :
    fromStrRadix16 ds = hexValue ds := by
  unfold fromStrRadix16 hexValue
  cases ds with
  | nil => exact absurd rfl hne
  | cons c r =>
    simp only []
    have := go_eq (c :: r) 0 hl (Nat.pow_pos (by decide))
    exact this

/-- main scanner lemma: one loop turn per segment -/
theorem unescape_segs : ∀ (segs : List (List Char × Esc)) (tail out : List Char) (fuel : Nat),
    segsWF segs tail → segs.length + 1 ≤ fuel →
    unescape fuel (renderSegs segs tail) out = .ok (out ++ meaningSegs segs tail) := by
  intro segs
  induction segs with
  | nil =>
    intro tail out fuel hwf hf
    obtain ⟨f, rfl⟩ : ∃ f, fuel = f + 1 := ⟨fuel - 1, by omega⟩
    have hno : ∀ c ∈ tail, (decide (c ≠ '\\')) = true := by
      intro c hc; simpa using hwf c hc
    have := takeWhile_all (fun c => decide (c ≠ '\\')) tail hno
    simp only [unescape, renderSegs, meaningSegs, this.1, this.2]
  | cons s r ih =>
    intro tail out fuel hwf hf
    obtain ⟨t, e⟩ := s
    obtain ⟨f, rfl⟩ : ∃ f, fuel = f + 1 := ⟨fuel - 1, by omega⟩
    obtain ⟨ht, he, hm, hr⟩ := hwf
    have hf' : r.length + 1 ≤ f := by simp only [List.length_cons] at hf; omega
    have hno : ∀ c ∈ t, (decide (c ≠ '\\')) = true := by
      intro c hc; simpa using ht c hc
    have hx : (decide ('\\' ≠ '\\')) = false := by decide
    have hrun := takeWhile_run (fun c => decide (c ≠ '\\')) t '\\' (e.text ++ renderSegs r tail) hno hx
    have hrender : renderSegs ((t, e) :: r) tail = t ++ '\\' :: (e.text ++ renderSegs r tail) := by
      simp [renderSegs]
    rw [hrender]
    simp only [unescape, meaningSegs]
    rw [hrun.1, hrun.2]
    have IH := fun o => ih tail o f hr hf'
    cases e with
    | n => simp [Esc.text, Esc.meaning, IH, List.append_assoc]
    | r => simp [Esc.text, Esc.meaning, IH, List.append_assoc]
    | t => simp [Esc.text, Esc.meaning, IH, List.append_assoc]
    | bslash => simp [Esc.text, Esc.meaning, IH, List.append_assoc]
    | zero => simp [Esc.text, Esc.meaning, IH, List.append_assoc]
    | squote => simp [Esc.text, Esc.meaning, IH, List.append_assoc]
    | dquote => simp [Esc.text, Esc.meaning, IH, List.append_assoc]
    | hex h l =>
      obtain ⟨v, hv, hlt⟩ := he
      simp [Esc.text, Esc.meaning, radix2 h l v hv, hv, hlt, IH, List.append_assoc]
    | uni ds =>
      obtain ⟨hnb, hne, hlen, v, c, hv, hc⟩ := he
      have hno2 : ∀ x ∈ ('{' :: ds), (decide (x ≠ '}')) = true := by
        intro x hx
        rcases List.mem_cons.mp hx with rfl | hx
        · decide
        · simpa using hnb x hx
      have hx2 : (decide ('}' ≠ '}')) = false := by decide
      have hrun2 := takeWhile_run (fun c => decide (c ≠ '}')) ('{' :: ds) '}' (renderSegs r tail) hno2 hx2
      have hcontains : ('{' :: ds ++ '}' :: renderSegs r tail).contains '}' = true := by
        simp
      have e1 : ('{' :: (ds ++ '}' :: renderSegs r tail)) = ('{' :: ds) ++ '}' :: renderSegs r tail := by simp
      simp only [Esc.text, Esc.meaning, List.cons_append, List.append_assoc, List.singleton_append, List.nil_append]
      simp only [show ('u' = 'x') = False by decide, if_false, if_true]
      rw [e1, hcontains]
      simp only [if_true, hrun2.1, hrun2.2, List.drop_one, List.tail_cons]
      rw [radix_eq _ hne hlen, hv]
      simp only [Option.bind_some, hc]
      rw [IH]
      simp [List.append_assoc]
    | cont nl ws =>
      obtain ⟨hnl, hws⟩ := he
      have hdrop := dropWhile_run isContWs ws (renderSegs r tail) hws (by
        intro c hc
        rw [head_render] at hc
        exact hm c hc)
      rcases hnl with rfl | rfl
      · simp [Esc.text, Esc.meaning, hdrop, IH, List.append_assoc]
      · simp [Esc.text, Esc.meaning, hdrop, IH, List.append_assoc]

end Konst.Lit.Lemmas
