import KonstVerif.Model.Basic
import KonstVerif.Model.Slice
import KonstVerif.Spec.Utf8
import KonstVerif.Lemmas.Utf8
/-
  Vocabulary and boundary lemmas for C01 ("every returned string is valid UTF-8 that begins and ends
  on character boundaries of the argument").  Core Lean only; builds on `Lemmas/Utf8.lean`
  (`match_on_boundaries`, `cut_valid`, `boundary_le`).

  `OnBoundaries cs v`   both ends of the view `v` are character boundaries of the string `encs cs`
  `GoodStr cs v`        C01's conclusion for one returned `&str`: the view lies inside the argument,
                        both ends are character boundaries of the argument, and the bytes it denotes
                        are valid UTF-8
  goodStr_of_boundaries a view on boundaries is in bounds and denotes valid UTF-8 (`cut_valid`)
  occurrence_boundaries a non-empty valid needle sitting between `A` and `r` in a valid string cuts
                        at boundaries (`match_on_boundaries` in `A ++ needle ++ r` form)
  ascii_prefix_boundary / ascii_suffix_boundary   a run of ASCII bytes at the start / end ends / starts
                        on a boundary (an ASCII byte IS a one-byte character)
  reps_prefix_boundary / reps_suffix_boundary     whole repetitions of a valid needle at the start /
                        end of a valid string end / start on a boundary
-/
namespace Konst.Lemmas.StrValid
open Konst Konst.Spec.Utf8 Konst.Lemmas.Utf8

/-- both ends of a returned view are character boundaries of the string with chars `cs` -/
def OnBoundaries (cs : List Nat) (v : View) : Prop :=
  IsBoundary cs v.off ∧ IsBoundary cs (v.off + v.len)

/-- C01's conclusion for one returned `&str` (a view into the `&str` argument `encs cs`):
    it borrows a sub-range of the argument, begins and ends on character boundaries of the
    argument, and is valid UTF-8 -/
def GoodStr (cs : List Nat) (v : View) : Prop :=
  v.InBounds (encs cs).length ∧ OnBoundaries cs v ∧ Valid (v.apply (encs cs))

/-- a view whose two ends are boundaries lies inside the string and denotes valid UTF-8 -/
theorem goodStr_of_boundaries (cs : List Nat) (hs : ∀ c ∈ cs, isScalar c = true) (v : View)
    (h : OnBoundaries cs v) : GoodStr cs v := by
  refine ⟨boundary_le cs _ h.2, h, ?_⟩
  have := cut_valid cs hs v.off (v.off + v.len) h.1 h.2
  rwa [Nat.add_sub_cancel_left] at this

theorem onB_whole (cs : List Nat) : OnBoundaries cs ⟨0, (encs cs).length⟩ :=
  ⟨boundary_zero cs, by simpa using boundary_len cs⟩

theorem onB_empty (cs : List Nat) : OnBoundaries cs ⟨0, 0⟩ :=
  ⟨boundary_zero cs, boundary_zero cs⟩

/-- the suffix starting at a boundary -/
theorem onB_suffix (cs : List Nat) (x : Nat) (hx : IsBoundary cs x) :
    OnBoundaries cs ⟨x, (encs cs).length - x⟩ := by
  have hle := boundary_le cs x hx
  refine ⟨hx, ?_⟩
  show IsBoundary cs (x + ((encs cs).length - x))
  have : x + ((encs cs).length - x) = (encs cs).length := by omega
  rw [this]; exact boundary_len cs

/-- the prefix ending at a boundary -/
theorem onB_prefix (cs : List Nat) (x : Nat) (hx : IsBoundary cs x) : OnBoundaries cs ⟨0, x⟩ :=
  ⟨boundary_zero cs, by simpa using hx⟩

theorem sliceFrom_of_le {len x : Nat} (h : x ≤ len) : Slice.sliceFrom len x = ⟨x, len - x⟩ := by
  simp [Slice.sliceFrom, Slice.sliceFromImpl, overflowingSub, h]

theorem sliceFrom_of_gt {len x : Nat} (h : len < x) : Slice.sliceFrom len x = ⟨0, 0⟩ := by
  have : ¬ x ≤ len := by omega
  simp [Slice.sliceFrom, Slice.sliceFromImpl, overflowingSub, this]

theorem sliceUpTo_of_le {len x : Nat} (h : x ≤ len) : Slice.sliceUpTo len x = ⟨0, x⟩ := by
  simp [Slice.sliceUpTo, Slice.sliceUpToImpl, overflowingSub, h]

theorem sliceUpTo_of_gt {len x : Nat} (h : len < x) : Slice.sliceUpTo len x = ⟨0, len⟩ := by
  have : ¬ x ≤ len := by omega
  simp [Slice.sliceUpTo, Slice.sliceUpToImpl, overflowingSub, this]

theorem encs_ne_nil {ps : List Nat} (h : ps ≠ []) : encs ps ≠ [] := by
  cases ps with
  | nil => exact absurd rfl h
  | cons c t => simp [enc_ne_nil c]

theorem ps_ne_nil_of_encs {ps : List Nat} (h : encs ps ≠ []) : ps ≠ [] := by
  intro e; subst e; exact h rfl

/-- a non-empty needle made of whole characters sitting between `A` and `r` in a string:
    it starts at a boundary (`|A|`) and ends at a boundary -/
theorem occurrence_boundaries (cs ps : List Nat) (hps : ps ≠ []) (A r : List Nat)
    (h : encs cs = A ++ encs ps ++ r) :
    IsBoundary cs A.length ∧ IsBoundary cs (A.length + (encs ps).length) := by
  apply match_on_boundaries cs ps hps A.length
  rw [h, List.append_assoc, List.drop_left]
  exact List.prefix_append _ _

/-- an ASCII byte string is its own encoding (each byte `< 0x80` is a one-byte character) -/
theorem encs_ascii : ∀ (w : List Nat), (∀ b ∈ w, b < 128) → encs w = w := by
  intro w
  induction w with
  | nil => intro _; rfl
  | cons b w ih =>
    intro hw
    have hb : b < 0x80 := hw b (by simp)
    rw [encs_cons, ih (fun x hx => hw x (List.mem_cons_of_mem _ hx))]
    simp [enc, hb]

/-- removing a run of ASCII bytes from the front of a string cuts at a boundary -/
theorem ascii_prefix_boundary (cs w r : List Nat) (hw : ∀ b ∈ w, b < 128)
    (h : encs cs = w ++ r) : IsBoundary cs w.length := by
  by_cases hn : w = []
  · subst hn; exact boundary_zero cs
  · have := (occurrence_boundaries cs w hn [] r (by rw [encs_ascii w hw]; simpa using h)).2
    rw [encs_ascii w hw] at this
    simpa using this

/-- removing a run of ASCII bytes from the back of a string cuts at a boundary -/
theorem ascii_suffix_boundary (cs r w : List Nat) (hw : ∀ b ∈ w, b < 128)
    (h : encs cs = r ++ w) : IsBoundary cs r.length := by
  by_cases hn : w = []
  · subst hn
    have : r.length = (encs cs).length := by rw [h]; simp
    rw [this]; exact boundary_len cs
  · exact (occurrence_boundaries cs w hn r [] (by rw [encs_ascii w hw]; simpa using h)).1

/-- whole repetitions of a valid needle at the FRONT of a valid string end on a boundary -/
theorem reps_prefix_boundary (cs ps : List Nat) (k : Nat) (r : List Nat)
    (h : encs cs = (List.replicate k (encs ps)).flatten ++ r) :
    IsBoundary cs (List.replicate k (encs ps)).flatten.length := by
  cases k with
  | zero => simpa using boundary_zero cs
  | succ k =>
    by_cases hps : ps = []
    · subst hps
      have : (List.replicate (k + 1) (encs [])).flatten = [] := by simp
      rw [this]; exact boundary_zero cs
    · have h2 := (occurrence_boundaries cs ps hps (List.replicate k (encs ps)).flatten r (by
        rw [h, List.replicate_succ', List.flatten_append]; simp)).2
      rw [List.replicate_succ', List.flatten_append, List.length_append]
      simpa using h2

/-- whole repetitions of a valid needle at the BACK of a valid string start on a boundary -/
theorem reps_suffix_boundary (cs ps : List Nat) (k : Nat) (r : List Nat)
    (h : encs cs = r ++ (List.replicate k (encs ps)).flatten) : IsBoundary cs r.length := by
  cases k with
  | zero =>
    have : r.length = (encs cs).length := by rw [h]; simp
    rw [this]; exact boundary_len cs
  | succ k =>
    by_cases hps : ps = []
    · subst hps
      have e : (List.replicate (k + 1) (encs [])).flatten = [] := by simp
      have : r.length = (encs cs).length := by rw [h, e]; simp
      rw [this]; exact boundary_len cs
    · exact (occurrence_boundaries cs ps hps r (List.replicate k (encs ps)).flatten (by
        rw [h, List.replicate_succ, List.flatten_cons]; simp)).1

end Konst.Lemmas.StrValid
