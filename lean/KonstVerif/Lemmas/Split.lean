import KonstVerif.Model.Split
import KonstVerif.Spec.Split
import KonstVerif.Lemmas.Utf8
import KonstVerif.Lemmas.Bytes
import KonstVerif.Props.C04
/-
  Helper lemmas for C06 (split iterators).  Core Lean only.

    * closed forms of `str_from` / `str_up_to` / `split_at` cuts on a `Str`
    * one-step lemmas: what `nextBlock` / `nextBackBlock` / `TIter.next` / `TIter.rnext` do on a
      valid string in every state (never a panic: `match_on_boundaries`)
    * the induction: iterating to exhaustion = `stepsFwd` / `stepsBwd` of the spec's pieces
-/
namespace Konst.Lemmas.Split
open Konst Konst.Utf8 Konst.Split Konst.Spec.Bytes Konst.Spec.Utf8 Konst.Spec.Split Konst.Lemmas.Utf8
open Konst.Lemmas.Bytes (sliceFrom_apply sliceUpTo_apply)

/-- spec-side positioned string as a model `Str` -/
def ofP (x : PStr) : Str := ⟨x.1, x.2⟩
def ofP2 (x : PStr × PStr) : Str × Str := (ofP x.1, ofP x.2)

theorem ofP_pnorm (x : PStr) : ofP (pnorm x) = (ofP x).norm := by
  unfold pnorm Str.norm ofP Str.lit
  by_cases h : x.2.isEmpty <;> simp [h]

theorem norm_mk (o : Nat) (b : List Nat) : (Str.mk o b).norm = ofP (pnorm (o, b)) := by
  rw [ofP_pnorm]; rfl

theorem norm_lit : Str.lit.norm = Str.lit := rfl
theorem lit_eq (o : Nat) : ofP (pnorm (o, [])) = Str.lit := rfl
theorem norm_nil (o : Nat) : (Str.mk o []).norm = Str.lit := rfl

/-! ### cuts -/

theorem strFrom_ok (s : List Nat) (i : Nat) (h : isCharBoundaryForgiving s i = true) :
    strFrom s i = .ok (Slice.sliceFrom s.length i) := by
  unfold strFrom; simp [h]

theorem strUpTo_ok (s : List Nat) (i : Nat) (h : isCharBoundaryForgiving s i = true) :
    strUpTo s i = .ok (Slice.sliceUpTo s.length i) := by
  unfold strUpTo; simp [h]

theorem cut_from (x : Str) (i : Nat) (hi : i ≤ x.bytes.length) :
    x.cut (Slice.sliceFrom x.bytes.length i) = ⟨x.off + i, x.bytes.drop i⟩ := by
  unfold Str.cut
  rw [sliceFrom_apply]
  simp [Slice.sliceFrom, Slice.sliceFromImpl, overflowingSub, hi]

theorem cut_upto (x : Str) (i : Nat) :
    x.cut (Slice.sliceUpTo x.bytes.length i) = ⟨x.off, x.bytes.take i⟩ := by
  unfold Str.cut
  rw [sliceUpTo_apply]
  by_cases hi : i ≤ x.bytes.length <;>
    simp [Slice.sliceUpTo, Slice.sliceUpToImpl, overflowingSub, hi]

theorem forgiving_beyond (s : List Nat) (i : Nat) (h : s.length ≤ i) :
    isCharBoundaryForgiving s i = true := by
  unfold isCharBoundaryForgiving; simp [h]

/-- `split_at` on a `Str` at an accepted position inside the string -/
theorem splitAtStr_ok (x : Str) (i : Nat) (hi : i ≤ x.bytes.length)
    (h : isCharBoundaryForgiving x.bytes i = true) :
    splitAtStr x i = .ok (⟨x.off, x.bytes.take i⟩, ⟨x.off + i, x.bytes.drop i⟩) := by
  unfold splitAtStr Utf8.splitAt
  rw [strUpTo_ok _ _ h, strFrom_ok _ _ h]
  simp only [bind, Except.bind, pure, Except.pure]
  rw [cut_upto, cut_from _ _ hi]

/-! ### validity and boundaries -/

abbrev Scalars (cs : List Nat) : Prop := ∀ c ∈ cs, isScalar c = true

theorem encs_nil' : encs [] = [] := rfl

theorem encs_eq_nil {cs : List Nat} (h : encs cs = []) : cs = [] := by
  cases cs with
  | nil => rfl
  | cons c t =>
    rw [encs_cons] at h
    have := enc_ne_nil c
    simp at h; exact absurd h.1 this

theorem valid_nil : Valid [] := ⟨[], by simp, rfl⟩

theorem length_le_encs : ∀ (cs : List Nat), cs.length ≤ (encs cs).length := by
  intro cs
  induction cs with
  | nil => simp
  | cons c t ih =>
    rw [encs_cons, List.length_append, List.length_cons]
    have := List.length_pos_iff.mpr (enc_ne_nil c)
    omega

/-- an occurrence of a non-empty valid delimiter in a valid string starts and ends at positions the
    char-boundary test of `str_from`/`str_up_to` accepts, lies inside the string, and what is before
    / after it is valid again -/
theorem occ_facts (cur d : List Nat) (hv : Valid cur) (hd : Valid d) (hne : d ≠ []) (i : Nat)
    (ho : d <+: cur.drop i) :
    isCharBoundaryForgiving cur i = true ∧ isCharBoundaryForgiving cur (i + d.length) = true ∧
    i + d.length ≤ cur.length ∧ Valid (cur.take i) ∧ Valid (cur.drop (i + d.length)) := by
  obtain ⟨cs, hs, rfl⟩ := hv
  obtain ⟨ps, _, rfl⟩ := hd
  have hps : ps ≠ [] := by
    intro h; subst h; exact hne rfl
  obtain ⟨b1, b2⟩ := match_on_boundaries cs ps hps i ho
  refine ⟨(forgiving_iff cs hs i).mpr (Or.inr b1), (forgiving_iff cs hs _).mpr (Or.inr b2),
    boundary_le cs _ b2, take_valid cs hs i b1, drop_valid cs hs _ b2⟩

theorem findSpec_some {h p : List Nat} {i : Nat} (hf : findSpec h p = some i) : p <+: h.drop i := by
  rw [← Konst.Props.C04.find_eq_spec] at hf
  exact ((Konst.Props.C04.find_least h p i).mp hf).1

theorem rfindSpec_some {h p : List Nat} (hp : p ≠ []) {i : Nat} (hf : rfindSpec h p = some i) :
    p <+: h.drop i := by
  rw [← Konst.Props.C04.rfind_eq_spec h p hp] at hf
  exact ((Konst.Props.C04.rfind_greatest h p hp i).mp hf).1

theorem forgiving_zero (cur : List Nat) (hv : Valid cur) : isCharBoundaryForgiving cur 0 = true := by
  obtain ⟨cs, hs, rfl⟩ := hv
  exact (forgiving_iff cs hs 0).mpr (Or.inr (boundary_zero cs))

/-! ### one step, non-empty delimiter -/

theorem nextBlock_found (f : Bool) (o : Nat) (cur d : List Nat) (hv : Valid cur) (hd : Valid d)
    (hne : d ≠ []) (i : Nat) (hf : findSpec cur d = some i) :
    nextBlock ⟨f, ⟨o, cur⟩, .normal d⟩ =
      .ok (some (⟨o, cur.take i⟩, ⟨f, ⟨o + (i + d.length), cur.drop (i + d.length)⟩, .normal d⟩)) := by
  obtain ⟨b1, b2, hle, _, _⟩ := occ_facts cur d hv hd hne i (findSpec_some hf)
  unfold nextBlock
  simp only [StrFns.find, Konst.Props.C04.find_eq_spec, hf]
  rw [strFrom_ok _ _ b2, strUpTo_ok _ _ b1]
  simp only [bind, Except.bind, pure, Except.pure]
  rw [cut_upto, cut_from _ _ hle]

theorem nextBlock_none (f : Bool) (x : Str) (d : List Nat) (hf : findSpec x.bytes d = none) :
    nextBlock ⟨f, x, .normal d⟩ = .ok (some (x, ⟨f, Str.lit, .finished⟩)) := by
  unfold nextBlock
  simp only [StrFns.find, Konst.Props.C04.find_eq_spec, hf]

theorem nextBackBlock_found (f : Bool) (o : Nat) (cur d : List Nat) (hv : Valid cur) (hd : Valid d)
    (hne : d ≠ []) (i : Nat) (hf : rfindSpec cur d = some i) :
    nextBackBlock ⟨f, ⟨o, cur⟩, .normal d⟩ =
      .ok (some (⟨o + (i + d.length), cur.drop (i + d.length)⟩, ⟨f, ⟨o, cur.take i⟩, .normal d⟩)) := by
  obtain ⟨b1, b2, hle, _, _⟩ := occ_facts cur d hv hd hne i (rfindSpec_some hne hf)
  unfold nextBackBlock
  simp only [StrFns.rfind, Konst.Props.C04.rfind_eq_spec _ _ hne, hf]
  rw [strFrom_ok _ _ b2, strUpTo_ok _ _ b1]
  simp only [bind, Except.bind, pure, Except.pure]
  rw [cut_upto, cut_from _ _ hle]

theorem nextBackBlock_none (f : Bool) (x : Str) (d : List Nat) (hne : d ≠ [])
    (hf : rfindSpec x.bytes d = none) :
    nextBackBlock ⟨f, x, .normal d⟩ = .ok (some (x, ⟨f, Str.lit, .finished⟩)) := by
  unfold nextBackBlock
  simp only [StrFns.rfind, Konst.Props.C04.rfind_eq_spec _ _ hne, hf]

theorem nextBlock_finished (f : Bool) (x : Str) : nextBlock ⟨f, x, .finished⟩ = .ok none := rfl
theorem nextBackBlock_finished (f : Bool) (x : Str) : nextBackBlock ⟨f, x, .finished⟩ = .ok none := rfl

/-! ### iterating to exhaustion, non-empty delimiter -/

theorem take_length_of_le {α : Type} (l : List α) {i : Nat} (h : i ≤ l.length) : (l.take i).length = i := by
  simp [List.length_take, Nat.min_eq_left h]

/-- forward, Normal state: `next` = the `next` block (true for `Split::next`, `RSplit::next_back`) -/
theorem collect_fwd_normal (next : Iter → E (Option (Str × Iter))) (f : Bool)
    (hnext : ∀ t st, next ⟨f, t, st⟩ = nextBlock ⟨f, t, st⟩)
    (d : List Nat) (hd : Valid d) (hne : d ≠ []) :
    ∀ (n : Nat) (cur : List Nat) (o fuel : Nat), cur.length ≤ n → n + 2 ≤ fuel → Valid cur →
      collect next Iter.remainder fuel ⟨f, ⟨o, cur⟩, .normal d⟩ =
        .done ((stepsFwd d.length o cur (splitAux d n cur)).map ofP2) := by
  have hdl : 0 < d.length := List.length_pos_iff.mpr hne
  -- the "no further delimiter" step followed by `None`
  have last : ∀ (cur : List Nat) (o k : Nat), findSpec cur d = none →
      collect next Iter.remainder (k + 2) ⟨f, ⟨o, cur⟩, .normal d⟩ =
        .done ((stepsFwd d.length o cur [cur]).map ofP2) := by
    intro cur o k hf
    simp only [collect, hnext, nextBlock_none f ⟨o, cur⟩ d hf, nextBlock_finished]
    simp [stepsFwd, ofP2, Iter.remainder, norm_mk, norm_lit, lit_eq, List.drop_of_length_le]
  intro n
  induction n with
  | zero =>
    intro cur o fuel hl hfuel _
    have hc : cur = [] := List.eq_nil_of_length_eq_zero (by omega)
    subst hc
    obtain ⟨k, rfl⟩ : ∃ k, fuel = k + 2 := ⟨fuel - 2, by omega⟩
    have hf : findSpec [] d = none := by
      cases h : findSpec [] d with
      | none => rfl
      | some i =>
        have := (findSpec_some h).length_le
        rw [List.drop_nil, List.length_nil] at this; omega
    rw [last [] o k hf]; rfl
  | succ n ih =>
    intro cur o fuel hl hfuel hv
    obtain ⟨k, rfl⟩ : ∃ k, fuel = k + 2 := ⟨fuel - 2, by omega⟩
    cases hf : findSpec cur d with
    | none =>
      rw [last cur o k hf]
      simp only [splitAux, hf]
    | some i =>
      obtain ⟨_, _, hle, _, hvd⟩ := occ_facts cur d hv hd hne i (findSpec_some hf)
      have hi : i ≤ cur.length := by omega
      simp only [splitAux, hf]
      rw [collect, hnext, nextBlock_found f o cur d hv hd hne i hf]
      simp only
      rw [ih (cur.drop (i + d.length)) (o + (i + d.length)) (k + 1)
        (by rw [List.length_drop]; omega) (by omega) hvd]
      simp only [stepsFwd, List.map_cons, ofP2, Iter.remainder, norm_mk, take_length_of_le cur hi]

/-- backward, Normal state: `next` = the `next_back` block (`RSplit::next`, `Split::next_back`) -/
theorem collect_bwd_normal (next : Iter → E (Option (Str × Iter))) (f : Bool)
    (hnext : ∀ t st, next ⟨f, t, st⟩ = nextBackBlock ⟨f, t, st⟩)
    (d : List Nat) (hd : Valid d) (hne : d ≠ []) :
    ∀ (n : Nat) (cur : List Nat) (o fuel : Nat), cur.length ≤ n → n + 2 ≤ fuel → Valid cur →
      collect next Iter.remainder fuel ⟨f, ⟨o, cur⟩, .normal d⟩ =
        .done ((stepsBwd d.length o cur (rsplitAux d n cur)).map ofP2) := by
  have hdl : 0 < d.length := List.length_pos_iff.mpr hne
  have last : ∀ (cur : List Nat) (o k : Nat), rfindSpec cur d = none →
      collect next Iter.remainder (k + 2) ⟨f, ⟨o, cur⟩, .normal d⟩ =
        .done ((stepsBwd d.length o cur [cur]).map ofP2) := by
    intro cur o k hf
    simp only [collect, hnext, nextBackBlock_none f ⟨o, cur⟩ d hne hf, nextBackBlock_finished]
    have h0 : cur.length - (cur.length + d.length) = 0 := by omega
    simp [stepsBwd, ofP2, Iter.remainder, norm_mk, norm_lit, lit_eq, h0]
  intro n
  induction n with
  | zero =>
    intro cur o fuel hl hfuel _
    have hc : cur = [] := List.eq_nil_of_length_eq_zero (by omega)
    subst hc
    obtain ⟨k, rfl⟩ : ∃ k, fuel = k + 2 := ⟨fuel - 2, by omega⟩
    have hf : rfindSpec [] d = none := by
      cases h : rfindSpec [] d with
      | none => rfl
      | some i =>
        have := (rfindSpec_some hne h).length_le
        rw [List.drop_nil, List.length_nil] at this; omega
    rw [last [] o k hf]; rfl
  | succ n ih =>
    intro cur o fuel hl hfuel hv
    obtain ⟨k, rfl⟩ : ∃ k, fuel = k + 2 := ⟨fuel - 2, by omega⟩
    cases hf : rfindSpec cur d with
    | none =>
      rw [last cur o k hf]
      simp only [rsplitAux, hf]
    | some i =>
      obtain ⟨_, _, hle, hvt, _⟩ := occ_facts cur d hv hd hne i (rfindSpec_some hne hf)
      have hi : i ≤ cur.length := by omega
      simp only [rsplitAux, hf]
      rw [collect, hnext, nextBackBlock_found f o cur d hv hd hne i hf]
      simp only
      rw [ih (cur.take i) o (k + 1) (by rw [take_length_of_le cur hi]; omega) (by omega) hvt]
      have e1 : cur.length - ((cur.drop (i + d.length)).length + d.length) = i := by
        rw [List.length_drop]; omega
      have e2 : cur.length - (cur.drop (i + d.length)).length = i + d.length := by
        rw [List.length_drop]; omega
      simp only [stepsBwd, List.map_cons, ofP2, Iter.remainder, norm_mk, e1, e2]

/-! ### one step, empty delimiter -/

theorem nextBlock_empty (f : Bool) (x : Str) (es : EmptyState) :
    nextBlock ⟨f, x, .empty es⟩ = nextFromEmpty ⟨f, x, .empty es⟩ es := rfl
theorem nextBackBlock_empty (f : Bool) (x : Str) (es : EmptyState) :
    nextBackBlock ⟨f, x, .empty es⟩ = nextBackFromEmpty ⟨f, x, .empty es⟩ es := rfl

theorem findNext_nil : findNextCharBoundary [] 0 = 1 :=
  findNext_eq [] 0 0 1 rfl (fun j h1 h2 => by omega) (forgiving_beyond [] 1 (by simp))

theorem first_char_forgiving (c : Nat) (cs : List Nat) (hs : Scalars (c :: cs)) :
    isCharBoundaryForgiving (encs (c :: cs)) (enc c).length = true :=
  (forgiving_iff _ hs _).mpr (Or.inr ⟨1, by simp⟩)

theorem last_char_forgiving (cs : List Nat) (c : Nat) (hs : Scalars (cs ++ [c])) :
    isCharBoundaryForgiving (encs (cs ++ [c])) (encs cs).length = true :=
  (forgiving_iff _ hs _).mpr (Or.inr ⟨cs.length, by simp⟩)

theorem encs_snoc (cs : List Nat) (c : Nat) : encs (cs ++ [c]) = encs cs ++ enc c := by
  rw [encs_append]; simp

theorem encs_cons_ne_nil (c : Nat) (cs : List Nat) : (encs (c :: cs)).isEmpty = false := by
  rw [encs_cons]
  have := enc_ne_nil c
  cases h : enc c with
  | nil => exact absurd h this
  | cons a t => rfl

theorem encs_snoc_ne_nil (cs : List Nat) (c : Nat) : (encs (cs ++ [c])).isEmpty = false := by
  rw [encs_snoc]
  have := enc_ne_nil c
  cases h : enc c with
  | nil => exact absurd h this
  | cons a t => cases encs cs <;> rfl

/-- the char-walking step of `next_from_empty` (also the `Empty(Continue)` arm of
    `SplitTerminator::next`) on a non-empty valid string: the first character is split off -/
theorem walk_fwd (o c : Nat) (cs : List Nat) (hs : Scalars (c :: cs)) :
    splitAtStr ⟨o, encs (c :: cs)⟩ (findNextCharBoundary (encs (c :: cs)) 0) =
      .ok (⟨o, enc c⟩, ⟨o + (enc c).length, encs cs⟩) := by
  have hfn : findNextCharBoundary (encs (c :: cs)) 0 = (enc c).length := by
    rw [encs_cons]; exact findNext_first c cs hs
  rw [hfn, splitAtStr_ok _ _ (by simp [encs_cons]) (first_char_forgiving c cs hs)]
  simp [encs_cons]

/-- the char-walking step of `next_back_from_empty` / `RSplitTerminator::next`: the last character
    is split off, `__find_prev_char_boundary` does not underflow -/
theorem walk_bwd (cs : List Nat) (c : Nat) (hs : Scalars (cs ++ [c])) :
    findPrevCharBoundary (encs (cs ++ [c])) (encs (cs ++ [c])).length = some (encs cs).length := by
  rw [encs_snoc]; exact findPrev_last cs c hs

theorem nextFromEmpty_cons (f : Bool) (o c : Nat) (cs : List Nat) (hs : Scalars (c :: cs)) :
    nextFromEmpty ⟨f, ⟨o, encs (c :: cs)⟩, .empty .cont⟩ .cont =
      .ok (some (⟨o, enc c⟩, ⟨f, ⟨o + (enc c).length, encs cs⟩, .empty .cont⟩)) := by
  unfold nextFromEmpty
  simp only [encs_cons_ne_nil, Bool.false_eq_true, if_false, walk_fwd o c cs hs,
    bind, Except.bind, pure, Except.pure]

theorem nextFromEmpty_nil (f : Bool) (o : Nat) :
    nextFromEmpty ⟨f, ⟨o, []⟩, .empty .cont⟩ .cont =
      .ok (some (⟨o, []⟩, ⟨f, ⟨o, []⟩, .finished⟩)) := by
  unfold nextFromEmpty
  simp only [findNext_nil]
  rfl

theorem nextBackFromEmpty_snoc (f : Bool) (o : Nat) (cs : List Nat) (c : Nat) (hs : Scalars (cs ++ [c])) :
    nextBackFromEmpty ⟨f, ⟨o, encs (cs ++ [c])⟩, .empty .cont⟩ .cont =
      .ok (some (⟨o + (encs cs).length, enc c⟩, ⟨f, ⟨o, encs cs⟩, .empty .cont⟩)) := by
  unfold nextBackFromEmpty
  simp only [encs_snoc_ne_nil, Bool.false_eq_true, if_false, walk_bwd cs c hs]
  rw [splitAtStr_ok _ _ (by simp [encs_snoc]) (last_char_forgiving cs c hs)]
  simp [encs_snoc, bind, Except.bind, pure, Except.pure]

theorem nextBackFromEmpty_nil (f : Bool) (o : Nat) :
    nextBackFromEmpty ⟨f, ⟨o, []⟩, .empty .cont⟩ .cont =
      .ok (some (⟨o, []⟩, ⟨f, ⟨o, []⟩, .finished⟩)) := by
  rfl

/-! ### iterating to exhaustion, empty delimiter -/

theorem collect_fwd_empty (next : Iter → E (Option (Str × Iter))) (f : Bool)
    (hnext : ∀ t st, next ⟨f, t, st⟩ = nextBlock ⟨f, t, st⟩) :
    ∀ (cs : List Nat) (o fuel : Nat), Scalars cs → cs.length + 2 ≤ fuel →
      collect next Iter.remainder fuel ⟨f, ⟨o, encs cs⟩, .empty .cont⟩ =
        .done ((stepsFwd 0 o (encs cs) (cs.map enc ++ [[]])).map ofP2) := by
  intro cs
  induction cs with
  | nil =>
    intro o fuel _ hfuel
    obtain ⟨k, rfl⟩ : ∃ k, fuel = k + 2 := ⟨fuel - 2, by omega⟩
    simp only [collect, hnext, encs_nil', nextBlock_empty, nextFromEmpty_nil, nextBlock_finished]
    rfl
  | cons c cs ih =>
    intro o fuel hs hfuel
    obtain ⟨k, rfl⟩ : ∃ k, fuel = k + 1 := ⟨fuel - 1, by omega⟩
    rw [collect, hnext, nextBlock_empty, nextFromEmpty_cons f o c cs hs]
    simp only
    rw [ih (o + (enc c).length) k (fun x hx => hs x (List.mem_cons_of_mem _ hx))
      (by simp only [List.length_cons] at hfuel; omega)]
    simp [stepsFwd, ofP2, Iter.remainder, norm_mk, encs_cons]

theorem collect_bwd_empty (next : Iter → E (Option (Str × Iter))) (f : Bool)
    (hnext : ∀ t st, next ⟨f, t, st⟩ = nextBackBlock ⟨f, t, st⟩) :
    ∀ (n : Nat) (cs : List Nat) (o fuel : Nat), cs.length = n → Scalars cs → n + 2 ≤ fuel →
      collect next Iter.remainder fuel ⟨f, ⟨o, encs cs⟩, .empty .cont⟩ =
        .done ((stepsBwd 0 o (encs cs) (cs.reverse.map enc ++ [[]])).map ofP2) := by
  intro n
  induction n with
  | zero =>
    intro cs o fuel hl _ hfuel
    have : cs = [] := List.eq_nil_of_length_eq_zero hl
    subst this
    obtain ⟨k, rfl⟩ : ∃ k, fuel = k + 2 := ⟨fuel - 2, by omega⟩
    simp only [collect, hnext, encs_nil', nextBackBlock_empty, nextBackFromEmpty_nil,
      nextBackBlock_finished]
    rfl
  | succ n ih =>
    intro cs o fuel hl hs hfuel
    obtain ⟨cs', c, rfl⟩ : ∃ cs' c, cs = cs' ++ [c] := by
      rcases Konst.Lemmas.Bytes.nil_or_snoc cs with h | h
      · subst h; simp at hl
      · exact h
    obtain ⟨k, rfl⟩ : ∃ k, fuel = k + 1 := ⟨fuel - 1, by omega⟩
    rw [collect, hnext, nextBackBlock_empty, nextBackFromEmpty_snoc f o cs' c hs]
    simp only
    rw [ih cs' o k (by simp at hl; omega) (fun x hx => hs x (List.mem_append_left _ hx)) (by omega)]
    simp [stepsBwd, ofP2, Iter.remainder, norm_mk, encs_snoc]

/-! ### split_terminator / rsplit_terminator: one step -/

theorem isEmpty_false_of_ne {l : List Nat} (h : l ≠ []) : l.isEmpty = false := by
  cases l with
  | nil => exact absurd rfl h
  | cons a t => rfl

theorem tnext_nil (o : Nat) (d : List Nat) : TIter.next ⟨⟨o, []⟩, .normal d⟩ = .ok none := rfl
theorem trnext_nil (o : Nat) (d : List Nat) : TIter.rnext ⟨⟨o, []⟩, .normal d⟩ = .ok none := rfl
theorem tnext_cont_nil (o : Nat) : TIter.next ⟨⟨o, []⟩, .empty .cont⟩ = .ok none := rfl
theorem trnext_cont_nil (o : Nat) : TIter.rnext ⟨⟨o, []⟩, .empty .cont⟩ = .ok none := rfl
theorem tnext_start (x : Str) :
    TIter.next ⟨x, .empty .start⟩ = .ok (some (Str.lit, ⟨x, .empty .cont⟩)) := rfl
theorem trnext_start (x : Str) :
    TIter.rnext ⟨x, .empty .start⟩ = .ok (some (Str.lit, ⟨x, .empty .cont⟩)) := rfl

theorem tnext_found (o : Nat) (cur d : List Nat) (hv : Valid cur) (hd : Valid d)
    (hne : d ≠ []) (i : Nat) (hf : findSpec cur d = some i) :
    TIter.next ⟨⟨o, cur⟩, .normal d⟩ =
      .ok (some (⟨o, cur.take i⟩, ⟨⟨o + (i + d.length), cur.drop (i + d.length)⟩, .normal d⟩)) := by
  obtain ⟨b1, b2, hle, _, _⟩ := occ_facts cur d hv hd hne i (findSpec_some hf)
  have hc : cur ≠ [] := by
    intro h; subst h
    have := List.length_pos_iff.mpr hne
    rw [List.length_nil] at hle; omega
  unfold TIter.next
  simp only [isEmpty_false_of_ne hc, Bool.false_eq_true, if_false, StrFns.find,
    Konst.Props.C04.find_eq_spec, hf]
  rw [strFrom_ok _ _ b2, strUpTo_ok _ _ b1]
  simp only [bind, Except.bind, pure, Except.pure]
  rw [cut_upto, cut_from _ _ hle]

theorem tnext_none (o : Nat) (cur d : List Nat) (hc : cur ≠ []) (hf : findSpec cur d = none) :
    TIter.next ⟨⟨o, cur⟩, .normal d⟩ =
      .ok (some (⟨o, cur⟩, ⟨⟨o + cur.length, []⟩, .normal d⟩)) := by
  unfold TIter.next
  simp only [isEmpty_false_of_ne hc, Bool.false_eq_true, if_false, StrFns.find,
    Konst.Props.C04.find_eq_spec, hf]
  rw [strFrom_ok _ _ (forgiving_beyond _ _ (Nat.le_refl _)),
    strUpTo_ok _ _ (forgiving_beyond _ _ (Nat.le_refl _))]
  simp only [bind, Except.bind, pure, Except.pure]
  rw [cut_upto, cut_from _ _ (Nat.le_refl _)]
  simp

theorem trnext_found (o : Nat) (cur d : List Nat) (hv : Valid cur) (hd : Valid d)
    (hne : d ≠ []) (i : Nat) (hf : rfindSpec cur d = some i) :
    TIter.rnext ⟨⟨o, cur⟩, .normal d⟩ =
      .ok (some (⟨o + (i + d.length), cur.drop (i + d.length)⟩, ⟨⟨o, cur.take i⟩, .normal d⟩)) := by
  obtain ⟨b1, b2, hle, _, _⟩ := occ_facts cur d hv hd hne i (rfindSpec_some hne hf)
  have hc : cur ≠ [] := by
    intro h; subst h
    have := List.length_pos_iff.mpr hne
    rw [List.length_nil] at hle; omega
  unfold TIter.rnext
  simp only [isEmpty_false_of_ne hc, Bool.false_eq_true, if_false, StrFns.rfind,
    Konst.Props.C04.rfind_eq_spec _ _ hne, hf]
  rw [strFrom_ok _ _ b2, strUpTo_ok _ _ b1]
  simp only [bind, Except.bind, pure, Except.pure]
  rw [cut_upto, cut_from _ _ hle]

theorem trnext_none (o : Nat) (cur d : List Nat) (hv : Valid cur) (hne : d ≠ []) (hc : cur ≠ [])
    (hf : rfindSpec cur d = none) :
    TIter.rnext ⟨⟨o, cur⟩, .normal d⟩ =
      .ok (some (⟨o, cur⟩, ⟨⟨o, []⟩, .normal d⟩)) := by
  unfold TIter.rnext
  simp only [isEmpty_false_of_ne hc, Bool.false_eq_true, if_false, StrFns.rfind,
    Konst.Props.C04.rfind_eq_spec _ _ hne, hf]
  rw [strFrom_ok _ _ (forgiving_zero cur hv), strUpTo_ok _ _ (forgiving_zero cur hv)]
  simp only [bind, Except.bind, pure, Except.pure]
  rw [cut_upto, cut_from _ _ (Nat.zero_le _)]
  simp

theorem tnext_cont_cons (o c : Nat) (cs : List Nat) (hs : Scalars (c :: cs)) :
    TIter.next ⟨⟨o, encs (c :: cs)⟩, .empty .cont⟩ =
      .ok (some (⟨o, enc c⟩, ⟨⟨o + (enc c).length, encs cs⟩, .empty .cont⟩)) := by
  unfold TIter.next
  simp only [encs_cons_ne_nil, Bool.false_eq_true, if_false, walk_fwd o c cs hs,
    bind, Except.bind, pure, Except.pure]

theorem trnext_cont_snoc (o : Nat) (cs : List Nat) (c : Nat) (hs : Scalars (cs ++ [c])) :
    TIter.rnext ⟨⟨o, encs (cs ++ [c])⟩, .empty .cont⟩ =
      .ok (some (⟨o + (encs cs).length, enc c⟩, ⟨⟨o, encs cs⟩, .empty .cont⟩)) := by
  unfold TIter.rnext
  simp only [encs_snoc_ne_nil, Bool.false_eq_true, if_false, walk_bwd cs c hs]
  rw [splitAtStr_ok _ _ (by simp [encs_snoc]) (last_char_forgiving cs c hs)]
  simp [encs_snoc, bind, Except.bind, pure, Except.pure]

/-! ### split_terminator / rsplit_terminator: iterating to exhaustion -/

theorem dropLastEmpty_cons (x : List Nat) (l : List (List Nat)) (h : l ≠ []) :
    dropLastEmpty (x :: l) = x :: dropLastEmpty l := by
  cases l with
  | nil => exact absurd rfl h
  | cons y t =>
    unfold dropLastEmpty
    rw [List.getLast?_cons_cons, List.dropLast_cons_cons]
    by_cases hl : (y :: t).getLast? = some [] <;> simp [hl]

theorem dropLastEmpty_single (c : List Nat) (h : c ≠ []) : dropLastEmpty [c] = [c] := by
  unfold dropLastEmpty; simp [h]

theorem dropLastEmpty_nil_single : dropLastEmpty [[]] = [] := rfl

theorem dropLastEmpty_snoc (l : List (List Nat)) : dropLastEmpty (l ++ [[]]) = l := by
  unfold dropLastEmpty; simp

theorem findSpec_nil_none (d : List Nat) (hne : d ≠ []) : findSpec [] d = none := by
  cases h : findSpec [] d with
  | none => rfl
  | some i =>
    have := (findSpec_some h).length_le
    have := List.length_pos_iff.mpr hne
    rw [List.drop_nil, List.length_nil] at *; omega

theorem rfindSpec_nil_none (d : List Nat) (hne : d ≠ []) : rfindSpec [] d = none := by
  cases h : rfindSpec [] d with
  | none => rfl
  | some i =>
    have := (rfindSpec_some hne h).length_le
    have := List.length_pos_iff.mpr hne
    rw [List.drop_nil, List.length_nil] at *; omega

theorem splitAux_nil (d : List Nat) (hne : d ≠ []) (n : Nat) : splitAux d n [] = [[]] := by
  cases n with
  | zero => rfl
  | succ n => simp only [splitAux, findSpec_nil_none d hne]

theorem rsplitAux_nil (d : List Nat) (hne : d ≠ []) (n : Nat) : rsplitAux d n [] = [[]] := by
  cases n with
  | zero => rfl
  | succ n => simp only [rsplitAux, rfindSpec_nil_none d hne]

theorem splitAux_ne_nil (d : List Nat) (n : Nat) (s : List Nat) : splitAux d n s ≠ [] := by
  cases n with
  | zero => simp [splitAux]
  | succ n => simp only [splitAux]; cases findSpec s d <;> simp

theorem rsplitAux_ne_nil (d : List Nat) (n : Nat) (s : List Nat) : rsplitAux d n s ≠ [] := by
  cases n with
  | zero => simp [rsplitAux]
  | succ n => simp only [rsplitAux]; cases rfindSpec s d <;> simp

theorem collectT_fwd_normal (d : List Nat) (hd : Valid d) (hne : d ≠ []) :
    ∀ (n : Nat) (cur : List Nat) (o fuel : Nat), cur.length ≤ n → n + 2 ≤ fuel → Valid cur →
      collect TIter.next TIter.remainder fuel ⟨⟨o, cur⟩, .normal d⟩ =
        .done ((stepsFwd d.length o cur (dropLastEmpty (splitAux d n cur))).map ofP2) := by
  have hdl : 0 < d.length := List.length_pos_iff.mpr hne
  intro n
  induction n with
  | zero =>
    intro cur o fuel hl hfuel _
    have hc : cur = [] := List.eq_nil_of_length_eq_zero (by omega)
    subst hc
    obtain ⟨k, rfl⟩ : ∃ k, fuel = k + 1 := ⟨fuel - 1, by omega⟩
    rw [collect, tnext_nil]; rfl
  | succ n ih =>
    intro cur o fuel hl hfuel hv
    obtain ⟨k, rfl⟩ : ∃ k, fuel = k + 2 := ⟨fuel - 2, by omega⟩
    by_cases hc : cur = []
    · subst hc
      rw [collect, tnext_nil, splitAux_nil d hne]; rfl
    cases hf : findSpec cur d with
    | none =>
      simp only [splitAux, hf, dropLastEmpty_single cur hc]
      simp only [collect, tnext_none o cur d hc hf, tnext_nil]
      simp [stepsFwd, ofP2, TIter.remainder, norm_mk, lit_eq, List.drop_of_length_le]
    | some i =>
      obtain ⟨_, _, hle, _, hvd⟩ := occ_facts cur d hv hd hne i (findSpec_some hf)
      have hi : i ≤ cur.length := by omega
      simp only [splitAux, hf]
      rw [dropLastEmpty_cons _ _ (splitAux_ne_nil _ _ _)]
      rw [collect, tnext_found o cur d hv hd hne i hf]
      simp only
      rw [ih (cur.drop (i + d.length)) (o + (i + d.length)) (k + 1)
        (by rw [List.length_drop]; omega) (by omega) hvd]
      simp only [stepsFwd, List.map_cons, ofP2, TIter.remainder, norm_mk, take_length_of_le cur hi]

theorem collectT_bwd_normal (d : List Nat) (hd : Valid d) (hne : d ≠ []) :
    ∀ (n : Nat) (cur : List Nat) (o fuel : Nat), cur.length ≤ n → n + 2 ≤ fuel → Valid cur →
      collect TIter.rnext TIter.remainder fuel ⟨⟨o, cur⟩, .normal d⟩ =
        .done ((stepsBwd d.length o cur (dropLastEmpty (rsplitAux d n cur))).map ofP2) := by
  have hdl : 0 < d.length := List.length_pos_iff.mpr hne
  intro n
  induction n with
  | zero =>
    intro cur o fuel hl hfuel _
    have hc : cur = [] := List.eq_nil_of_length_eq_zero (by omega)
    subst hc
    obtain ⟨k, rfl⟩ : ∃ k, fuel = k + 1 := ⟨fuel - 1, by omega⟩
    rw [collect, trnext_nil]; rfl
  | succ n ih =>
    intro cur o fuel hl hfuel hv
    obtain ⟨k, rfl⟩ : ∃ k, fuel = k + 2 := ⟨fuel - 2, by omega⟩
    by_cases hc : cur = []
    · subst hc
      rw [collect, trnext_nil, rsplitAux_nil d hne]; rfl
    cases hf : rfindSpec cur d with
    | none =>
      simp only [rsplitAux, hf, dropLastEmpty_single cur hc]
      simp only [collect, trnext_none o cur d hv hne hc hf, trnext_nil]
      have h0 : cur.length - (cur.length + d.length) = 0 := by omega
      simp [stepsBwd, ofP2, TIter.remainder, norm_mk, lit_eq, h0]
    | some i =>
      obtain ⟨_, _, hle, hvt, _⟩ := occ_facts cur d hv hd hne i (rfindSpec_some hne hf)
      have hi : i ≤ cur.length := by omega
      simp only [rsplitAux, hf]
      rw [dropLastEmpty_cons _ _ (rsplitAux_ne_nil _ _ _)]
      rw [collect, trnext_found o cur d hv hd hne i hf]
      simp only
      rw [ih (cur.take i) o (k + 1) (by rw [take_length_of_le cur hi]; omega) (by omega) hvt]
      have e1 : cur.length - ((cur.drop (i + d.length)).length + d.length) = i := by
        rw [List.length_drop]; omega
      have e2 : cur.length - (cur.drop (i + d.length)).length = i + d.length := by
        rw [List.length_drop]; omega
      simp only [stepsBwd, List.map_cons, ofP2, TIter.remainder, norm_mk, e1, e2]

theorem collectT_fwd_empty :
    ∀ (cs : List Nat) (o fuel : Nat), Scalars cs → cs.length + 1 ≤ fuel →
      collect TIter.next TIter.remainder fuel ⟨⟨o, encs cs⟩, .empty .cont⟩ =
        .done ((stepsFwd 0 o (encs cs) (cs.map enc)).map ofP2) := by
  intro cs
  induction cs with
  | nil =>
    intro o fuel _ hfuel
    obtain ⟨k, rfl⟩ : ∃ k, fuel = k + 1 := ⟨fuel - 1, by omega⟩
    rw [collect, encs_nil', tnext_cont_nil]; rfl
  | cons c cs ih =>
    intro o fuel hs hfuel
    obtain ⟨k, rfl⟩ : ∃ k, fuel = k + 1 := ⟨fuel - 1, by omega⟩
    rw [collect, tnext_cont_cons o c cs hs]
    simp only
    rw [ih (o + (enc c).length) k (fun x hx => hs x (List.mem_cons_of_mem _ hx))
      (by simp only [List.length_cons] at hfuel; omega)]
    simp [stepsFwd, ofP2, TIter.remainder, norm_mk, encs_cons]

theorem collectT_bwd_empty :
    ∀ (n : Nat) (cs : List Nat) (o fuel : Nat), cs.length = n → Scalars cs → n + 1 ≤ fuel →
      collect TIter.rnext TIter.remainder fuel ⟨⟨o, encs cs⟩, .empty .cont⟩ =
        .done ((stepsBwd 0 o (encs cs) (cs.reverse.map enc)).map ofP2) := by
  intro n
  induction n with
  | zero =>
    intro cs o fuel hl _ hfuel
    have : cs = [] := List.eq_nil_of_length_eq_zero hl
    subst this
    obtain ⟨k, rfl⟩ : ∃ k, fuel = k + 1 := ⟨fuel - 1, by omega⟩
    rw [collect, encs_nil', trnext_cont_nil]; rfl
  | succ n ih =>
    intro cs o fuel hl hs hfuel
    obtain ⟨cs', c, rfl⟩ : ∃ cs' c, cs = cs' ++ [c] := by
      rcases Konst.Lemmas.Bytes.nil_or_snoc cs with h | h
      · subst h; simp at hl
      · exact h
    obtain ⟨k, rfl⟩ : ∃ k, fuel = k + 1 := ⟨fuel - 1, by omega⟩
    rw [collect, trnext_cont_snoc o cs' c hs]
    simp only
    rw [ih cs' o k (by simp at hl; omega) (fun x hx => hs x (List.mem_append_left _ hx)) (by omega)]
    simp [stepsBwd, ofP2, TIter.remainder, norm_mk, encs_snoc]

/-! ### pieces, closed form of the remainder, number of pieces -/

theorem pnorm_snd (x : PStr) : (pnorm x).2 = x.2 := by
  unfold pnorm
  by_cases h : x.2.isEmpty
  · simp only [h, if_true]; exact (List.isEmpty_iff.mp h).symm
  · simp [h]

theorem stepsFwd_pieces (dl : Nat) : ∀ (ps : List (List Nat)) (o : Nat) (cur : List Nat),
    ((stepsFwd dl o cur ps).map ofP2).map (fun x => x.1.bytes) = ps := by
  intro ps
  induction ps with
  | nil => intro o cur; rfl
  | cons p ps ih =>
    intro o cur
    simp only [stepsFwd, List.map_cons, ofP2, ofP, pnorm_snd, ih]

theorem stepsBwd_pieces (dl o : Nat) : ∀ (ps : List (List Nat)) (cur : List Nat),
    ((stepsBwd dl o cur ps).map ofP2).map (fun x => x.1.bytes) = ps := by
  intro ps
  induction ps with
  | nil => intro cur; rfl
  | cons p ps ih =>
    intro cur
    simp only [stepsBwd, List.map_cons, ofP2, ofP, pnorm_snd, ih]

theorem consumed_zero (dl : Nat) (p : List Nat) (ps : List (List Nat)) :
    consumed dl (p :: ps) 0 = p.length + dl := by simp [consumed]

theorem consumed_succ (dl : Nat) (p : List Nat) (ps : List (List Nat)) (k : Nat) :
    consumed dl (p :: ps) (k + 1) = (p.length + dl) + consumed dl ps k := by
  simp [consumed]

/-- closed form: after step `k` of a forward iteration the remainder is the input minus the first
    `k + 1` pieces and delimiters, at that offset -/
theorem stepsFwd_rem (dl : Nat) : ∀ (ps : List (List Nat)) (o : Nat) (cur : List Nat) (k : Nat),
    k < ps.length →
    ((stepsFwd dl o cur ps)[k]?).map (fun x => x.2) =
      some (pnorm (o + consumed dl ps k, cur.drop (consumed dl ps k))) := by
  intro ps
  induction ps with
  | nil => intro o cur k hk; simp at hk
  | cons p ps ih =>
    intro o cur k hk
    cases k with
    | zero => simp [stepsFwd, consumed_zero]
    | succ k =>
      simp only [stepsFwd, List.getElem?_cons_succ, consumed_succ]
      rw [ih _ _ k (by simpa using hk), List.drop_drop, Nat.add_assoc]

theorem stepsBwd_rem (dl o : Nat) : ∀ (ps : List (List Nat)) (cur : List Nat) (k : Nat),
    k < ps.length →
    ((stepsBwd dl o cur ps)[k]?).map (fun x => x.2) =
      some (pnorm (o, cur.take (cur.length - consumed dl ps k))) := by
  intro ps
  induction ps with
  | nil => intro cur k hk; simp at hk
  | cons p ps ih =>
    intro cur k hk
    cases k with
    | zero => simp [stepsBwd, consumed_zero]
    | succ k =>
      simp only [stepsBwd, List.getElem?_cons_succ, consumed_succ]
      rw [ih _ k (by simpa using hk), List.take_take, List.length_take]
      have e : min (min (cur.length - (p.length + dl)) cur.length - consumed dl ps k)
          (cur.length - (p.length + dl)) = cur.length - (p.length + dl + consumed dl ps k) := by omega
      rw [e]

theorem splitAux_length (d : List Nat) : ∀ (n : Nat) (s : List Nat), (splitAux d n s).length ≤ n + 1 := by
  intro n
  induction n with
  | zero => intro s; simp [splitAux]
  | succ n ih =>
    intro s
    simp only [splitAux]
    cases findSpec s d with
    | none => simp
    | some i => have := ih (s.drop (i + d.length)); simp only [List.length_cons]; omega

theorem rsplitAux_length (d : List Nat) : ∀ (n : Nat) (s : List Nat), (rsplitAux d n s).length ≤ n + 1 := by
  intro n
  induction n with
  | zero => intro s; simp [rsplitAux]
  | succ n ih =>
    intro s
    simp only [rsplitAux]
    cases rfindSpec s d with
    | none => simp
    | some i => have := ih (s.take i); simp only [List.length_cons]; omega

theorem dropLastEmpty_length (l : List (List Nat)) : (dropLastEmpty l).length ≤ l.length := by
  unfold dropLastEmpty
  split <;> simp

theorem charPieces_valid (s : List Nat) (hs : Valid s) : (charPieces s).length ≤ s.length := by
  obtain ⟨cs, hcs, rfl⟩ := hs
  unfold charPieces
  rw [decodeAll_encs cs hcs]
  simpa using length_le_encs cs

/-- number of pieces: at most `|s| + 2` (reached by the empty delimiter on ASCII text) -/
theorem spec_lengths (s d : List Nat) (hs : Valid s) :
    (splitSpec s d).length ≤ s.length + 2 ∧ (rsplitSpec s d).length ≤ s.length + 2 ∧
    (splitTerminatorSpec s d).length ≤ s.length + 2 ∧ (rsplitTerminatorSpec s d).length ≤ s.length + 2 := by
  have h1 : (splitSpec s d).length ≤ s.length + 2 := by
    unfold splitSpec
    split
    · have := charPieces_valid s hs; simp; omega
    · have := splitAux_length d s.length s; omega
  have h2 : (rsplitSpec s d).length ≤ s.length + 2 := by
    unfold rsplitSpec
    split
    · have := charPieces_valid s hs; simp; omega
    · have := rsplitAux_length d s.length s; omega
  refine ⟨h1, h2, ?_, ?_⟩
  · exact Nat.le_trans (dropLastEmpty_length _) h1
  · exact Nat.le_trans (dropLastEmpty_length _) h2

/-- a full split uses up the whole input and one delimiter more: after the last piece of `split` /
    `rsplit` the closed-form remainder is empty -/
theorem splitAux_total (d : List Nat) (hne : d ≠ []) : ∀ (n : Nat) (s : List Nat),
    ((splitAux d n s).map (fun p => p.length + d.length)).sum = s.length + d.length := by
  intro n
  induction n with
  | zero => intro s; simp [splitAux]
  | succ n ih =>
    intro s
    simp only [splitAux]
    cases hf : findSpec s d with
    | none => simp
    | some i =>
      have hle := (findSpec_some hf).length_le
      have hdl := List.length_pos_iff.mpr hne
      rw [List.length_drop] at hle
      simp only [List.map_cons, List.sum_cons, ih, List.length_drop, List.length_take]
      omega

theorem rsplitAux_total (d : List Nat) (hne : d ≠ []) : ∀ (n : Nat) (s : List Nat),
    ((rsplitAux d n s).map (fun p => p.length + d.length)).sum = s.length + d.length := by
  intro n
  induction n with
  | zero => intro s; simp [rsplitAux]
  | succ n ih =>
    intro s
    simp only [rsplitAux]
    cases hf : rfindSpec s d with
    | none => simp
    | some i =>
      have hle := (rfindSpec_some hne hf).length_le
      have hdl := List.length_pos_iff.mpr hne
      rw [List.length_drop] at hle
      simp only [List.map_cons, List.sum_cons, ih, List.length_drop, List.length_take]
      omega

theorem consumed_last (dl : Nat) (ps : List (List Nat)) :
    consumed dl ps (ps.length - 1) = (ps.map (fun p => p.length + dl)).sum := by
  unfold consumed
  rw [List.take_of_length_le (by omega)]

theorem encs_length_sum : ∀ (cs : List Nat), ((cs.map enc).map (fun p => p.length + 0)).sum = (encs cs).length := by
  intro cs
  induction cs with
  | nil => rfl
  | cons c cs ih => simp only [List.map_cons, List.sum_cons, ih, encs_cons, List.length_append]; omega

/-- `split` / `rsplit` use up the whole input: the closed-form remainder after the LAST piece is `""` -/
theorem consumed_all (s d : List Nat) (hs : Valid s) :
    s.length ≤ consumed d.length (splitSpec s d) ((splitSpec s d).length - 1) ∧
    s.length ≤ consumed d.length (rsplitSpec s d) ((rsplitSpec s d).length - 1) := by
  rw [consumed_last, consumed_last]
  by_cases hne : d = []
  · subst hne
    obtain ⟨cs, hcs, rfl⟩ := hs
    have hc : charPieces (encs cs) = cs.map enc := by
      unfold charPieces; rw [decodeAll_encs cs hcs]; rfl
    have := encs_length_sum cs
    have hr : (((cs.map enc).reverse).map (fun p => p.length + 0)).sum = (encs cs).length := by
      rw [List.map_reverse, List.sum_reverse]; exact this
    simp only [splitSpec, rsplitSpec, List.isEmpty_nil, if_true, hc, List.length_nil, List.map_cons,
      List.map_append, List.sum_cons, List.sum_append, List.map_nil, List.sum_nil, this, hr]
    omega
  · simp only [splitSpec, rsplitSpec, isEmpty_false_of_ne hne, Bool.false_eq_true, if_false,
      splitAux_total d hne, rsplitAux_total d hne]
    omega

end Konst.Lemmas.Split
