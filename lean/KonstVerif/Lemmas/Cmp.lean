import KonstVerif.Model.Cmp
import KonstVerif.Spec.Cmp
/-
  Helper lemmas for C16.
  Part A: the std orders of `Spec/Cmp.lean` are total orders (`IsTotalOrder`), and are preserved by
          the lexicographic and `Option` constructions.
  Part B: the index loops of `Model/Cmp.lean` compute the spec.
-/
namespace Konst.Lemmas.Cmp
open Konst.Cmp Konst.Spec.Cmp

/-! ## Part A -/

theorem then_eq_eq (x y : Ordering) : x.then y = .eq ↔ x = .eq ∧ y = .eq := by
  cases x <;> cases y <;> decide

theorem then_eq_lt (x y : Ordering) : x.then y = .lt ↔ x = .lt ∨ (x = .eq ∧ y = .lt) := by
  cases x <;> cases y <;> decide

theorem swap_then (x y : Ordering) : (x.then y).swap = x.swap.then y.swap := by
  cases x <;> cases y <;> rfl

theorem swap_eq_lt (x : Ordering) : x.swap = .lt ↔ x = .gt := by cases x <;> decide
theorem swap_eq_gt (x : Ordering) : x.swap = .gt ↔ x = .lt := by cases x <;> decide
theorem swap_eq_eq (x : Ordering) : x.swap = .eq ↔ x = .eq := by cases x <;> decide

/-- consequences of the three fields, in the form the corollaries use -/
theorem _root_.Konst.Spec.Cmp.IsTotalOrder.refl {α : Type} {cmp : α → α → Ordering} (h : IsTotalOrder cmp) (a : α) :
    cmp a a = .eq := (h.eq_iff a a).2 rfl

theorem _root_.Konst.Spec.Cmp.IsTotalOrder.gt_iff {α : Type} {cmp : α → α → Ordering} (h : IsTotalOrder cmp) (a b : α) :
    cmp a b = .gt ↔ cmp b a = .lt := by
  rw [h.swap a b, swap_eq_lt]

theorem _root_.Konst.Spec.Cmp.IsTotalOrder.trans_gt {α : Type} {cmp : α → α → Ordering} (h : IsTotalOrder cmp) (a b c : α) :
    cmp a b = .gt → cmp b c = .gt → cmp a c = .gt := by
  intro h1 h2
  rw [h.gt_iff] at h1 h2 ⊢
  exact h.trans_lt c b a h2 h1

/-- totality: exactly the trichotomy -/
theorem _root_.Konst.Spec.Cmp.IsTotalOrder.total {α : Type} {cmp : α → α → Ordering} (h : IsTotalOrder cmp) (a b : α) :
    cmp a b = .lt ∨ a = b ∨ cmp b a = .lt := by
  cases hc : cmp a b
  · exact Or.inl rfl
  · exact Or.inr (Or.inl ((h.eq_iff a b).1 hc))
  · exact Or.inr (Or.inr ((h.gt_iff a b).1 hc))

theorem int_isTotalOrder : IsTotalOrder stdCmpScalar where
  eq_iff a b := by unfold stdCmpScalar; exact Int.compare_eq_eq
  swap a b := by
    unfold stdCmpScalar
    rcases Int.lt_trichotomy a b with h | h | h
    · rw [Int.compare_eq_lt.2 h, Int.compare_eq_gt.2 h]; rfl
    · subst h; rw [Int.compare_eq_eq.2 rfl]; rfl
    · rw [Int.compare_eq_gt.2 h, Int.compare_eq_lt.2 h]; rfl
  trans_lt a b c := by
    unfold stdCmpScalar
    rw [Int.compare_eq_lt, Int.compare_eq_lt, Int.compare_eq_lt]
    omega

theorem ordering_isTotalOrder : IsTotalOrder stdCmpOrdering where
  eq_iff a b := by cases a <;> cases b <;> decide
  swap a b := by cases a <;> cases b <;> decide
  trans_lt a b c := by cases a <;> cases b <;> cases c <;> decide

theorem lex_isTotalOrder {α : Type} {cmp : α → α → Ordering} (h : IsTotalOrder cmp) :
    IsTotalOrder (lexCmp cmp) where
  eq_iff l := by
    induction l with
    | nil => intro r; cases r <;> simp [lexCmp]
    | cons a as ih =>
      intro r
      cases r with
      | nil => simp [lexCmp]
      | cons b bs => simp only [lexCmp, then_eq_eq, h.eq_iff, ih bs, List.cons.injEq]
  swap l := by
    induction l with
    | nil => intro r; cases r <;> simp [lexCmp, Ordering.swap]
    | cons a as ih =>
      intro r
      cases r with
      | nil => simp [lexCmp, Ordering.swap]
      | cons b bs => simp only [lexCmp, swap_then, h.swap a b, ih bs]
  trans_lt l := by
    induction l with
    | nil =>
      intro m r h1 h2
      cases m with
      | nil => simp [lexCmp] at h1
      | cons b bs => cases r <;> simp_all [lexCmp]
    | cons a as ih =>
      intro m r h1 h2
      cases m with
      | nil => simp [lexCmp] at h1
      | cons b bs =>
        cases r with
        | nil => simp [lexCmp] at h2
        | cons c cs =>
          simp only [lexCmp, then_eq_lt] at h1 h2 ⊢
          rcases h1 with h1 | ⟨h1, h1'⟩ <;> rcases h2 with h2 | ⟨h2, h2'⟩
          · exact Or.inl (h.trans_lt a b c h1 h2)
          · have := (h.eq_iff b c).1 h2; subst this; exact Or.inl h1
          · have := (h.eq_iff a b).1 h1; subst this; exact Or.inl h2
          · have e1 := (h.eq_iff a b).1 h1; have e2 := (h.eq_iff b c).1 h2
            subst e1; subst e2
            exact Or.inr ⟨h1, ih bs cs h1' h2'⟩

theorem opt_isTotalOrder {α : Type} {cmp : α → α → Ordering} (h : IsTotalOrder cmp) :
    IsTotalOrder (optCmp cmp) where
  eq_iff a b := by
    cases a <;> cases b <;> simp [optCmp, h.eq_iff]
  swap a b := by
    cases a <;> cases b <;> simp only [optCmp, Ordering.swap]
    exact h.swap _ _
  trans_lt a b c := by
    cases a <;> cases b <;> cases c <;> simp [optCmp]
    exact h.trans_lt _ _ _

/-! ## Part B -/

/-- the order of two lengths, written without `compare` -/
def lenOrd (a b : Nat) : Ordering := if a < b then .lt else if a = b then .eq else .gt

theorem lexCmp_drop_min {α : Type} (cmp : α → α → Ordering) (l r : List α) :
    lexCmp cmp (l.drop (min l.length r.length)) (r.drop (min l.length r.length))
      = lenOrd l.length r.length := by
  induction l generalizing r with
  | nil => cases r <;> simp [lexCmp, lenOrd]
  | cons a as ih =>
    cases r with
    | nil => simp [lexCmp, lenOrd]
    | cons b bs =>
      have := ih bs
      simp only [List.length_cons, Nat.succ_min_succ, List.drop_succ_cons, this, lenOrd,
        Nat.add_lt_add_iff_right, Nat.add_right_cancel_iff]

theorem toOrdering_LESS : U8Ordering.LESS.toOrdering = .lt := by decide
theorem toOrdering_GREATER : U8Ordering.GREATER.toOrdering = .gt := by decide
theorem toOrdering_EQUAL : U8Ordering.EQUAL.toOrdering = .eq := by decide

theorem toOrdering_bool (b : Bool) :
    (U8Ordering.mk (boolAsU8 b)).toOrdering = if b then .gt else .lt := by
  cases b <;> decide

/-- `__priv_ret_if_ne!` on elements: falls through exactly on equal elements, otherwise returns the
    code of the std ordering -/
theorem retIfNe_int (a b : Int) :
    (a = b ∧ retIfNe a b = none) ∨
    (∃ o, retIfNe a b = some o ∧ o.toOrdering = stdCmpScalar a b ∧ stdCmpScalar a b ≠ .eq) := by
  unfold retIfNe
  by_cases h : a = b
  · left; simp [h]
  · right
    refine ⟨⟨boolAsU8 (decide (a > b))⟩, by simp [h], ?_, ?_⟩
    · rw [toOrdering_bool]
      unfold stdCmpScalar
      by_cases hgt : a > b
      · simp only [hgt, decide_true, if_true]; exact (Int.compare_eq_gt.2 hgt).symm
      · have hlt : a < b := by omega
        simp only [hgt, decide_false]; exact (Int.compare_eq_lt.2 hlt).symm
    · unfold stdCmpScalar
      intro hc; exact h (Int.compare_eq_eq.1 hc)

/-- `__priv_ret_if_ne!` on lengths followed by `EQUAL` -/
theorem retIfNe_len (a b : Nat) :
    (lenTail a b).toOrdering = lenOrd a b := by
  unfold lenTail retIfNe lenOrd
  by_cases h : a = b
  · simp [h, toOrdering_EQUAL]
  · simp only [ne_eq, h, not_false_eq_true, if_true, toOrdering_bool]
    by_cases hgt : a > b
    · have : ¬ a < b := by omega
      simp [hgt, this]
    · have : a < b := by omega
      simp [hgt, this]

/-- the element loop never panics and computes the lexicographic order of the remaining suffixes,
    provided the code after the loop (`tail`) encodes the order of the lengths -/
theorem elemLoop_spec (l r : List Int) (minLen : Nat) (tail : U8Ordering)
    (hmin : minLen = min l.length r.length)
    (htail : tail.toOrdering = lenOrd l.length r.length) :
    ∀ (n i : Nat), n = minLen - i → i ≤ minLen →
      ∃ o, elemLoop l r minLen tail i = some o ∧
        o.toOrdering = lexCmp stdCmpScalar (l.drop i) (r.drop i) := by
  intro n
  induction n with
  | zero =>
    intro i hn hi
    have hieq : i = minLen := by omega
    rw [elemLoop]
    simp only [show ¬ i < minLen by omega, if_false]
    refine ⟨tail, rfl, ?_⟩
    rw [htail, hieq, hmin, lexCmp_drop_min]
  | succ n ih =>
    intro i hn hi
    have hlt : i < minLen := by omega
    have hil : i < l.length := by omega
    have hir : i < r.length := by omega
    rw [elemLoop]
    simp only [hlt, if_true, List.getElem?_eq_getElem hil, List.getElem?_eq_getElem hir]
    rw [List.drop_eq_getElem_cons hil, List.drop_eq_getElem_cons hir]
    simp only [lexCmp]
    rcases retIfNe_int l[i] r[i] with ⟨he, hnone⟩ | ⟨o, hsome, ho, hne⟩
    · simp only [hnone]
      obtain ⟨o, h1, h2⟩ := ih (i + 1) (by omega) (by omega)
      refine ⟨o, h1, ?_⟩
      rw [h2, he, int_isTotalOrder.refl]
      rfl
    · simp only [hsome]
      refine ⟨o, rfl, ?_⟩
      rw [ho]
      cases hc : stdCmpScalar l[i] r[i] <;> simp_all [Ordering.then]

theorem cmpSliceInner_spec (l r : List Int) :
    ∃ o, cmpSliceInner l r = some o ∧ o.toOrdering = lexCmp stdCmpScalar l r := by
  unfold cmpSliceInner
  have := elemLoop_spec l r (if l.length < r.length then l.length else r.length)
    (lenTail l.length r.length)
    (by split <;> omega) (retIfNe_len _ _) _ 0 rfl (by omega)
  simpa using this

theorem cmpStrInner_spec (l r : List Int) :
    ∃ o, cmpStrInner l r = some o ∧ o.toOrdering = lexCmp stdCmpScalar l r := by
  unfold cmpStrInner
  by_cases hlt : l.length < r.length
  · have := elemLoop_spec l r l.length
      (if l.length = r.length then U8Ordering.EQUAL else U8Ordering.LESS)
      (by omega)
      (by have : l.length ≠ r.length := by omega
          simp [this, lenOrd, hlt, toOrdering_LESS]) _ 0 rfl (by omega)
    simpa [hlt] using this
  · have := elemLoop_spec l r r.length
      (if l.length = r.length then U8Ordering.EQUAL else U8Ordering.GREATER)
      (by omega)
      (by by_cases he : l.length = r.length
          · simp [he, lenOrd, toOrdering_EQUAL]
          · simp [he, lenOrd, hlt, toOrdering_GREATER]) _ 0 rfl (by omega)
    simpa [hlt] using this

/-- the equality loop never panics on slices of equal length and decides equality of the suffixes -/
theorem eqLoop_spec (l r : List Int) (hlen : l.length = r.length) :
    ∀ (n i : Nat), n = l.length - i → i ≤ l.length →
      eqLoop l r i = some (decide (l.drop i = r.drop i)) := by
  intro n
  induction n with
  | zero =>
    intro i hn hi
    have hieq : i = l.length := by omega
    rw [eqLoop]
    simp only [hieq, if_true]
    rw [List.drop_length, hlen, List.drop_length]
    simp
  | succ n ih =>
    intro i hn hi
    have hil : i < l.length := by omega
    have hir : i < r.length := by omega
    rw [eqLoop]
    simp only [show i ≠ l.length by omega, if_false, hil, dite_true, List.getElem?_eq_getElem hir]
    have hiff : l.drop i = r.drop i ↔ l[i] = r[i] ∧ l.drop (i + 1) = r.drop (i + 1) := by
      rw [List.drop_eq_getElem_cons hil, List.drop_eq_getElem_cons hir, List.cons.injEq]
    by_cases he : l[i] = r[i]
    · simp only [he, ne_eq, not_true_eq_false, if_false, hiff, true_and]
      exact ih (i + 1) (by omega) (by omega)
    · simp only [ne_eq, he, not_false_eq_true, if_true, hiff, false_and, decide_false]

theorem eqSlice_spec (l r : List Int) : eqSlice l r = some (decide (l = r)) := by
  unfold eqSlice
  by_cases hlen : l.length = r.length
  · simp only [ne_eq, hlen, not_true_eq_false, if_false]
    simpa using eqLoop_spec l r hlen _ 0 rfl (by omega)
  · have : l ≠ r := fun h => hlen (by rw [h])
    simp [hlen, this]

theorem eqStr_spec (l r : List Int) : eqStr l r = some (decide (l = r)) := eqSlice_spec l r

theorem listEqBy_of_length_ne {α : Type} (e : α → α → Bool) (l r : List α)
    (h : l.length ≠ r.length) : listEqBy e l r = false := by
  induction l generalizing r with
  | nil => cases r <;> simp_all [listEqBy]
  | cons a as ih =>
    cases r with
    | nil => simp [listEqBy]
    | cons b bs => simp only [listEqBy, ih bs (by simpa using h), Bool.and_false]

theorem listEqBy_decide {α : Type} [DecidableEq α] (e : α → α → Bool)
    (he : ∀ a b, e a b = decide (a = b)) (l r : List α) : listEqBy e l r = decide (l = r) := by
  induction l generalizing r with
  | nil => cases r <;> simp [listEqBy]
  | cons a as ih =>
    cases r with
    | nil => simp [listEqBy]
    | cons b bs =>
      simp only [listEqBy, ih bs, he, List.cons.injEq]
      by_cases h1 : a = b <;> by_cases h2 : as = bs <;> simp [h1, h2]

/-- the loop of `const_eq_for!(slice; …)` with a non-panicking element test `e` -/
theorem constEqForLoop_spec {α : Type} (eq : α → α → Option Bool) (e : α → α → Bool)
    (he : ∀ a b, eq a b = some (e a b)) (l r : List α) (hlen : l.length = r.length) :
    ∀ (n i : Nat), n = l.length - i → i ≤ l.length →
      constEqForLoop eq l r i = some (listEqBy e (l.drop i) (r.drop i)) := by
  intro n
  induction n with
  | zero =>
    intro i hn hi
    have hieq : i = l.length := by omega
    rw [constEqForLoop]
    simp only [hieq, if_true]
    rw [List.drop_length, hlen, List.drop_length]
    simp [listEqBy]
  | succ n ih =>
    intro i hn hi
    have hil : i < l.length := by omega
    have hir : i < r.length := by omega
    rw [constEqForLoop]
    simp only [show i ≠ l.length by omega, if_false, hil, dite_true, List.getElem?_eq_getElem hir, he]
    rw [List.drop_eq_getElem_cons hil, List.drop_eq_getElem_cons hir]
    simp only [listEqBy]
    cases hc : e l[i] r[i]
    · simp
    · simp only [Bool.true_and]
      exact ih (i + 1) (by omega) (by omega)

theorem constEqForSlice_spec {α : Type} (eq : α → α → Option Bool) (e : α → α → Bool)
    (he : ∀ a b, eq a b = some (e a b)) (l r : List α) :
    constEqForSlice eq l r = some (listEqBy e l r) := by
  unfold constEqForSlice
  by_cases hlen : l.length = r.length
  · simp only [hlen, if_true]
    simpa using constEqForLoop_spec eq e he l r hlen _ 0 rfl (by omega)
  · simp [hlen, listEqBy_of_length_ne e l r hlen]

theorem constCmpForSlice_spec {α : Type} (cmp : α → α → Option Ordering) (c : α → α → Ordering)
    (hc : ∀ a b, cmp a b = some (c a b)) (l r : List α) :
    constCmpForSlice cmp l r = some (lexCmp c l r) := by
  induction l generalizing r with
  | nil => cases r <;> simp [constCmpForSlice, lexCmp]
  | cons a as ih =>
    cases r with
    | nil => simp [constCmpForSlice, lexCmp]
    | cons b bs =>
      simp only [constCmpForSlice, hc, lexCmp, ih bs]
      cases c a b <;> simp [Ordering.then]

end Konst.Lemmas.Cmp
