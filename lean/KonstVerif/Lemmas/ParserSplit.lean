import KonstVerif.Lemmas.Parser
import KonstVerif.Spec.ParserSplit
/-
  Helper lemmas for the split protocols of C14: the exact result of one `split` / `rsplit` /
  `split_terminator` / `rsplit_terminator` / `split_keep` call on a parser whose remainder is a
  `&str`, in terms of the first / last occurrence of the delimiter (`Spec.Bytes.findSpec/rfindSpec`).
-/
set_option linter.unusedSimpArgs false
namespace Konst.Lemmas.ParserSplit
open Konst Konst.Parser Konst.Spec.Utf8 Konst.Spec.Bytes Konst.Lemmas.Utf8 Konst.Lemmas.Parser

theorem findSpec_le {h d : List Nat} {i : Nat} (hf : findSpec h d = some i) : i + d.length ≤ h.length := by
  rw [← Props.C04.find_eq_spec] at hf
  have h1 := ((Props.C04.find_least h d i).mp hf)
  have := h1.1.length_le
  simp only [List.length_drop] at this
  have := h1.2.1
  omega

theorem rfindSpec_le {h d : List Nat} (hne : d ≠ []) {i : Nat} (hf : rfindSpec h d = some i) :
    i + d.length ≤ h.length := by
  rw [← Props.C04.rfind_eq_spec h d hne] at hf
  have h1 := ((Props.C04.rfind_greatest h d hne i).mp hf)
  have := h1.1.length_le
  simp only [List.length_drop] at this
  have := h1.2.1
  omega

theorem findSpec_nil_hay {d : List Nat} (hne : d ≠ []) : findSpec [] d = none := by
  cases d with
  | nil => exact absurd rfl hne
  | cons a t => simp [findSpec, occursAt, List.isPrefixOf]

theorem rfindSpec_nil_hay {d : List Nat} (hne : d ≠ []) : rfindSpec [] d = none := by
  cases d with
  | nil => exact absurd rfl hne
  | cons a t => simp [rfindSpec, occursAt, List.isPrefixOf]

/-- `Parser::split` -/
theorem split_char (p : Parser) (d : List Nat) (hv : Valid p.str) (hd : Valid d) :
    (p.yieldedLastSplit = true → ∃ e, split p d = .err e ∧ e.kind = .splitExhausted) ∧
    (p.yieldedLastSplit = false → findSpec p.str d = none →
      split p d = .ok ⟨.fromStart, true, p.startOffset + p.str.length, []⟩ (.piece ⟨0, p.str.length⟩)) ∧
    (p.yieldedLastSplit = false → ∀ i, findSpec p.str d = some i →
      ∃ a, split p d = .ok ⟨.fromStart, false, p.startOffset + (i + d.length), p.str.drop (i + d.length)⟩ (.piece a) ∧
        a.apply p.str = p.str.take i) := by
  obtain ⟨r, hr, hnone, hcut⟩ := splitOnce_cut hv hd
  refine ⟨?_, ?_, ?_⟩
  · intro hfl
    exact ⟨_, by simp [split, tryParsing, hfl]; rfl, rfl⟩
  · intro hfl hf
    have hrn : r = none := hnone.mpr hf
    subst hrn
    simp [split, tryParsing, hfl, hr, strFrom_ok (bnd_len p.str), enableIfStartAdd, Parser.setStr,
      sliceFrom_apply']
  · intro hfl i hf
    cases r with
    | none => rw [hnone.mp rfl] at hf; cases hf
    | some ab =>
      obtain ⟨a, b⟩ := ab
      obtain ⟨j, hj, _, _, ha, hb⟩ := hcut a b rfl
      rw [hf] at hj; cases hj
      have hle := findSpec_le hf
      refine ⟨a, ?_, ha⟩
      simp only [split, tryParsing, hfl, hr, enableIfStartAdd, Parser.setStr, hb, List.length_drop,
        Bool.false_eq_true, if_false]
      congr 2
      omega

/-- `Parser::rsplit` -/
theorem rsplit_char (p : Parser) (d : List Nat) (hv : Valid p.str) (hd : Valid d) :
    (p.yieldedLastSplit = true → ∃ e, rsplit p d = .err e ∧ e.kind = .splitExhausted) ∧
    (p.yieldedLastSplit = false → rfindSpec p.str d = none →
      rsplit p d = .ok ⟨.fromEnd, true, p.startOffset, []⟩ (.piece ⟨0, p.str.length⟩)) ∧
    (p.yieldedLastSplit = false → ∀ i, rfindSpec p.str d = some i →
      ∃ b, rsplit p d = .ok ⟨.fromEnd, false, p.startOffset, p.str.take i⟩ (.piece b) ∧
        b.apply p.str = p.str.drop (i + d.length)) := by
  obtain ⟨r, hr, hnone, hcut⟩ := rsplitOnce_cut hv hd
  refine ⟨?_, ?_, ?_⟩
  · intro hfl
    exact ⟨_, by simp [rsplit, tryParsing, hfl]; rfl, rfl⟩
  · intro hfl hf
    have hrn : r = none := hnone.mpr hf
    subst hrn
    simp [rsplit, tryParsing, hfl, hr, strUpTo_ok (bnd_zero hv), enableIfStartAdd, Parser.setStr,
      sliceUpTo_apply']
  · intro hfl i hf
    cases r with
    | none => rw [hnone.mp rfl] at hf; cases hf
    | some ab =>
      obtain ⟨a, b⟩ := ab
      obtain ⟨j, hj, _, _, ha, hb⟩ := hcut a b rfl
      rw [hf] at hj; cases hj
      refine ⟨b, ?_, hb⟩
      simp only [rsplit, tryParsing, hfl, hr, enableIfStartAdd, Parser.setStr, ha,
        Bool.false_eq_true, if_false]

/-- `Parser::split_terminator` -/
theorem splitTerminator_char (p : Parser) (d : List Nat) (hv : Valid p.str) (hd : Valid d) :
    (p.yieldedLastSplit = true → ∃ e, splitTerminator p d = .err e ∧ e.kind = .splitExhausted) ∧
    (p.yieldedLastSplit = false → (p.str = [] ∨ findSpec p.str d = none) →
      ∃ e, splitTerminator p d = .err e ∧ e.kind = .delimiterNotFound) ∧
    (p.yieldedLastSplit = false → p.str ≠ [] → ∀ i, findSpec p.str d = some i →
      ∃ a, splitTerminator p d = .ok ⟨.fromStart, (p.str.drop (i + d.length)).isEmpty,
          p.startOffset + (i + d.length), p.str.drop (i + d.length)⟩ (.piece a) ∧
        a.apply p.str = p.str.take i) := by
  obtain ⟨r, hr, hnone, hcut⟩ := splitOnce_cut hv hd
  refine ⟨?_, ?_, ?_⟩
  · intro hfl
    exact ⟨_, by simp [splitTerminator, tryParsing, hfl]; rfl, rfl⟩
  · intro hfl hor
    by_cases hemp : p.str = []
    · exact ⟨_, by simp [splitTerminator, tryParsing, hfl, hemp]; rfl, rfl⟩
    · have hf : findSpec p.str d = none := by
        rcases hor with h | h
        · exact absurd h hemp
        · exact h
      have hrn : r = none := hnone.mpr hf
      subst hrn
      have he : p.str.isEmpty = false := by simpa using hemp
      exact ⟨_, by simp [splitTerminator, tryParsing, hfl, he, hr]; rfl, rfl⟩
  · intro hfl hemp i hf
    have he : p.str.isEmpty = false := by simpa using hemp
    cases r with
    | none => rw [hnone.mp rfl] at hf; cases hf
    | some ab =>
      obtain ⟨a, b⟩ := ab
      obtain ⟨j, hj, _, _, ha, hb⟩ := hcut a b rfl
      rw [hf] at hj; cases hj
      have hle := findSpec_le hf
      refine ⟨a, ?_, ha⟩
      simp only [splitTerminator, tryParsing, hfl, he, hr, enableIfStartAdd, hb, List.length_drop,
        Bool.false_eq_true, if_false, Bool.or_self]
      congr 2
      omega

/-- `Parser::rsplit_terminator` -/
theorem rsplitTerminator_char (p : Parser) (d : List Nat) (hv : Valid p.str) (hd : Valid d) :
    (p.yieldedLastSplit = true → ∃ e, rsplitTerminator p d = .err e ∧ e.kind = .splitExhausted) ∧
    (p.yieldedLastSplit = false → (p.str = [] ∨ rfindSpec p.str d = none) →
      ∃ e, rsplitTerminator p d = .err e ∧ e.kind = .delimiterNotFound) ∧
    (p.yieldedLastSplit = false → p.str ≠ [] → ∀ i, rfindSpec p.str d = some i →
      ∃ b, rsplitTerminator p d = .ok ⟨.fromEnd, (p.str.take i).isEmpty, p.startOffset, p.str.take i⟩ (.piece b) ∧
        b.apply p.str = p.str.drop (i + d.length)) := by
  obtain ⟨r, hr, hnone, hcut⟩ := rsplitOnce_cut hv hd
  refine ⟨?_, ?_, ?_⟩
  · intro hfl
    exact ⟨_, by simp [rsplitTerminator, tryParsing, hfl]; rfl, rfl⟩
  · intro hfl hor
    by_cases hemp : p.str = []
    · exact ⟨_, by simp [rsplitTerminator, tryParsing, hfl, hemp]; rfl, rfl⟩
    · have hf : rfindSpec p.str d = none := by
        rcases hor with h | h
        · exact absurd h hemp
        · exact h
      have hrn : r = none := hnone.mpr hf
      subst hrn
      have he : p.str.isEmpty = false := by simpa using hemp
      exact ⟨_, by simp [rsplitTerminator, tryParsing, hfl, he, hr]; rfl, rfl⟩
  · intro hfl hemp i hf
    have he : p.str.isEmpty = false := by simpa using hemp
    cases r with
    | none => rw [hnone.mp rfl] at hf; cases hf
    | some ab =>
      obtain ⟨a, b⟩ := ab
      obtain ⟨j, hj, _, _, ha, hb⟩ := hcut a b rfl
      rw [hf] at hj; cases hj
      refine ⟨b, ?_, hb⟩
      simp only [rsplitTerminator, tryParsing, hfl, he, hr, enableIfStartAdd, ha,
        Bool.false_eq_true, if_false, Bool.or_self]

/-! ### the protocols: iterating one method until it fails -/
open Konst.Spec.ParserSplit

theorem valid_nil : Valid [] := ⟨[], by simp, rfl⟩

theorem whole_apply (s : List Nat) : (View.mk 0 s.length).apply s = s := by simp [View.apply]

theorem step_split (p : Parser) (d : List Nat) : step (.split d) p = split p d := rfl
theorem step_rsplit (p : Parser) (d : List Nat) : step (.rsplit d) p = rsplit p d := rfl
theorem step_splitTerminator (p : Parser) (d : List Nat) : step (.splitTerminator d) p = splitTerminator p d := rfl
theorem step_rsplitTerminator (p : Parser) (d : List Nat) : step (.rsplitTerminator d) p = rsplitTerminator p d := rfl

/-- once the flag is set, the next `split` fails with `SplitExhausted` -/
theorem iterate_split_exhausted (d : List Nat) (hd : Valid d) (fuel : Nat) (p : Parser)
    (hfl : p.yieldedLastSplit = true) (hv : Valid p.str) :
    iterate (.split d) (fuel + 1) p = ([], some .splitExhausted) := by
  obtain ⟨e, he, hk⟩ := (split_char p d hv hd).1 hfl
  rw [iterate, step_split, he]
  simp only [hk]

theorem split_iterate (d : List Nat) (hd : Valid d) (hne : d ≠ []) : ∀ (n : Nat) (p : Parser),
    p.str.length ≤ n → p.yieldedLastSplit = false → Valid p.str →
    iterate (.split d) (n + 2) p = (splitGo d (n + 1) p.str, some .splitExhausted) := by
  have hdl : 0 < d.length := List.length_pos_iff.mpr hne
  intro n
  induction n with
  | zero =>
    intro p hlen hfl hv
    cases hf : findSpec p.str d with
    | some i => have := findSpec_le hf; omega
    | none =>
      have h1 := (split_char p d hv hd).2.1 hfl hf
      rw [iterate, step_split, h1]
      simp only []
      rw [iterate_split_exhausted d hd 0 _ rfl valid_nil]
      simp [splitGo, hf, whole_apply]
  | succ m ih =>
    intro p hlen hfl hv
    cases hf : findSpec p.str d with
    | none =>
      have h1 := (split_char p d hv hd).2.1 hfl hf
      rw [iterate, step_split, h1]
      simp only []
      rw [iterate_split_exhausted d hd (m + 1) _ rfl valid_nil]
      simp [splitGo, hf, whole_apply]
    | some i =>
      obtain ⟨a, h1, ha⟩ := (split_char p d hv hd).2.2 hfl i hf
      have hle := findSpec_le hf
      have hb := (findSpec_bnd hv hd hf).2
      rw [iterate, step_split, h1]
      simp only []
      rw [ih ⟨.fromStart, false, p.startOffset + (i + d.length), p.str.drop (i + d.length)⟩
        (by simp only [List.length_drop]; omega) rfl (valid_drop hv hb)]
      simp only [ha]
      conv => rhs; rw [splitGo]
      simp [hf]

theorem iterate_rsplit_exhausted (d : List Nat) (hd : Valid d) (fuel : Nat) (p : Parser)
    (hfl : p.yieldedLastSplit = true) (hv : Valid p.str) :
    iterate (.rsplit d) (fuel + 1) p = ([], some .splitExhausted) := by
  obtain ⟨e, he, hk⟩ := (rsplit_char p d hv hd).1 hfl
  rw [iterate, step_rsplit, he]
  simp only [hk]

theorem rsplit_iterate (d : List Nat) (hd : Valid d) (hne : d ≠ []) : ∀ (n : Nat) (p : Parser),
    p.str.length ≤ n → p.yieldedLastSplit = false → Valid p.str →
    iterate (.rsplit d) (n + 2) p = (rsplitGo d (n + 1) p.str, some .splitExhausted) := by
  have hdl : 0 < d.length := List.length_pos_iff.mpr hne
  intro n
  induction n with
  | zero =>
    intro p hlen hfl hv
    cases hf : rfindSpec p.str d with
    | some i => have := rfindSpec_le hne hf; omega
    | none =>
      have h1 := (rsplit_char p d hv hd).2.1 hfl hf
      rw [iterate, step_rsplit, h1]
      simp only []
      rw [iterate_rsplit_exhausted d hd 0 _ rfl valid_nil]
      simp [rsplitGo, hf, whole_apply]
  | succ m ih =>
    intro p hlen hfl hv
    cases hf : rfindSpec p.str d with
    | none =>
      have h1 := (rsplit_char p d hv hd).2.1 hfl hf
      rw [iterate, step_rsplit, h1]
      simp only []
      rw [iterate_rsplit_exhausted d hd (m + 1) _ rfl valid_nil]
      simp [rsplitGo, hf, whole_apply]
    | some i =>
      obtain ⟨b, h1, hbv⟩ := (rsplit_char p d hv hd).2.2 hfl i hf
      have hle := rfindSpec_le hne hf
      have hb := (rfindSpec_bnd hv hd hne hf).1
      rw [iterate, step_rsplit, h1]
      simp only []
      rw [ih ⟨.fromEnd, false, p.startOffset, p.str.take i⟩
        (by simp only [List.length_take]; omega) rfl (valid_take hv hb)]
      simp only [hbv]
      conv => rhs; rw [rsplitGo]
      simp [hf]

theorem splitGo_ne_nil (d : List Nat) : ∀ (n : Nat) (h : List Nat), splitGo d n h ≠ [] := by
  intro n h
  cases n with
  | zero => simp [splitGo]
  | succ n => unfold splitGo; cases findSpec h d <;> simp

theorem rsplitGo_ne_nil (d : List Nat) : ∀ (n : Nat) (h : List Nat), rsplitGo d n h ≠ [] := by
  intro n h
  cases n with
  | zero => simp [rsplitGo]
  | succ n => unfold rsplitGo; cases rfindSpec h d <;> simp

theorem splitGo_nil_hay {d : List Nat} (hne : d ≠ []) (n : Nat) : splitGo d n [] = [[]] := by
  cases n with
  | zero => rfl
  | succ n => simp [splitGo, findSpec_nil_hay hne]

theorem rsplitGo_nil_hay {d : List Nat} (hne : d ≠ []) (n : Nat) : rsplitGo d n [] = [[]] := by
  cases n with
  | zero => rfl
  | succ n => simp [rsplitGo, rfindSpec_nil_hay hne]

/-- a failure kind of the terminator methods -/
def TermKind (k : ErrorKind) : Prop := k = .splitExhausted ∨ k = .delimiterNotFound

theorem splitTerminator_iterate (d : List Nat) (hd : Valid d) (hne : d ≠ []) : ∀ (n : Nat) (p : Parser),
    p.str.length ≤ n → p.yieldedLastSplit = false → Valid p.str →
    ∃ k, iterate (.splitTerminator d) (n + 2) p = ((splitGo d (n + 1) p.str).dropLast, some k) ∧ TermKind k := by
  have hdl : 0 < d.length := List.length_pos_iff.mpr hne
  -- the two ways to fail at once
  have fail : ∀ (n : Nat) (p : Parser), p.yieldedLastSplit = false → Valid p.str → findSpec p.str d = none →
      ∃ k, iterate (.splitTerminator d) (n + 2) p = ((splitGo d (n + 1) p.str).dropLast, some k) ∧ TermKind k := by
    intro n p hfl hv hf
    obtain ⟨e, he, hk⟩ := (splitTerminator_char p d hv hd).2.1 hfl (Or.inr hf)
    refine ⟨.delimiterNotFound, ?_, Or.inr rfl⟩
    rw [iterate, step_splitTerminator, he]
    simp [hk, splitGo, hf]
  -- a successful step
  have succ_step : ∀ (n : Nat) (p : Parser) (i : Nat), p.yieldedLastSplit = false → Valid p.str →
      findSpec p.str d = some i →
      (∀ q : Parser, q.str = p.str.drop (i + d.length) → q.yieldedLastSplit = false → Valid q.str →
        ∃ k, iterate (.splitTerminator d) (n + 1) q = ((splitGo d n q.str).dropLast, some k) ∧ TermKind k) →
      ∃ k, iterate (.splitTerminator d) (n + 2) p = ((splitGo d (n + 1) p.str).dropLast, some k) ∧ TermKind k := by
    intro n p i hfl hv hf hrec
    have hle := findSpec_le hf
    have hemp : p.str ≠ [] := by
      intro he; rw [he] at hle; simp only [List.length_nil] at hle; omega
    obtain ⟨a, h1, ha⟩ := (splitTerminator_char p d hv hd).2.2 hfl hemp i hf
    have hb := (findSpec_bnd hv hd hf).2
    have hvr := valid_drop hv hb
    by_cases hrest : p.str.drop (i + d.length) = []
    · -- the delimiter ends the string: the flag is set, the next call reports SplitExhausted
      refine ⟨.splitExhausted, ?_, Or.inl rfl⟩
      rw [iterate, step_splitTerminator, h1]
      simp only []
      obtain ⟨e, he, hk⟩ := (splitTerminator_char
        ⟨.fromStart, (p.str.drop (i + d.length)).isEmpty, p.startOffset + (i + d.length), p.str.drop (i + d.length)⟩
        d hvr hd).1 (by simp [hrest])
      rw [iterate, step_splitTerminator, he]
      simp only [hk, ha]
      conv => rhs; rw [splitGo]
      simp [hf, hrest, splitGo_nil_hay hne]
    · have hfl' : (p.str.drop (i + d.length)).isEmpty = false := by simpa using hrest
      obtain ⟨k, hk, htk⟩ := hrec
        ⟨.fromStart, (p.str.drop (i + d.length)).isEmpty, p.startOffset + (i + d.length), p.str.drop (i + d.length)⟩
        rfl hfl' hvr
      refine ⟨k, ?_, htk⟩
      rw [iterate, step_splitTerminator, h1]
      simp only [hk, ha]
      conv => rhs; rw [splitGo]
      simp only [hf]
      rw [List.dropLast_cons_of_ne_nil (splitGo_ne_nil d n _)]
  intro n
  induction n with
  | zero =>
    intro p hlen hfl hv
    cases hf : findSpec p.str d with
    | some i => have := findSpec_le hf; omega
    | none => exact fail 0 p hfl hv hf
  | succ m ih =>
    intro p hlen hfl hv
    cases hf : findSpec p.str d with
    | none => exact fail (m + 1) p hfl hv hf
    | some i =>
      have hle := findSpec_le hf
      refine succ_step (m + 1) p i hfl hv hf ?_
      intro q hq hqfl hqv
      exact ih q (by rw [hq, List.length_drop]; omega) hqfl hqv

theorem rsplitTerminator_iterate (d : List Nat) (hd : Valid d) (hne : d ≠ []) : ∀ (n : Nat) (p : Parser),
    p.str.length ≤ n → p.yieldedLastSplit = false → Valid p.str →
    ∃ k, iterate (.rsplitTerminator d) (n + 2) p = ((rsplitGo d (n + 1) p.str).dropLast, some k) ∧ TermKind k := by
  have hdl : 0 < d.length := List.length_pos_iff.mpr hne
  have fail : ∀ (n : Nat) (p : Parser), p.yieldedLastSplit = false → Valid p.str → rfindSpec p.str d = none →
      ∃ k, iterate (.rsplitTerminator d) (n + 2) p = ((rsplitGo d (n + 1) p.str).dropLast, some k) ∧ TermKind k := by
    intro n p hfl hv hf
    obtain ⟨e, he, hk⟩ := (rsplitTerminator_char p d hv hd).2.1 hfl (Or.inr hf)
    refine ⟨.delimiterNotFound, ?_, Or.inr rfl⟩
    rw [iterate, step_rsplitTerminator, he]
    simp [hk, rsplitGo, hf]
  have succ_step : ∀ (n : Nat) (p : Parser) (i : Nat), p.yieldedLastSplit = false → Valid p.str →
      rfindSpec p.str d = some i →
      (∀ q : Parser, q.str = p.str.take i → q.yieldedLastSplit = false → Valid q.str →
        ∃ k, iterate (.rsplitTerminator d) (n + 1) q = ((rsplitGo d n q.str).dropLast, some k) ∧ TermKind k) →
      ∃ k, iterate (.rsplitTerminator d) (n + 2) p = ((rsplitGo d (n + 1) p.str).dropLast, some k) ∧ TermKind k := by
    intro n p i hfl hv hf hrec
    have hle := rfindSpec_le hne hf
    have hemp : p.str ≠ [] := by
      intro he; rw [he] at hle; simp only [List.length_nil] at hle; omega
    obtain ⟨b, h1, hbv⟩ := (rsplitTerminator_char p d hv hd).2.2 hfl hemp i hf
    have hb := (rfindSpec_bnd hv hd hne hf).1
    have hvr := valid_take hv hb
    by_cases hrest : p.str.take i = []
    · refine ⟨.splitExhausted, ?_, Or.inl rfl⟩
      rw [iterate, step_rsplitTerminator, h1]
      simp only []
      obtain ⟨e, he, hk⟩ := (rsplitTerminator_char
        ⟨.fromEnd, (p.str.take i).isEmpty, p.startOffset, p.str.take i⟩ d hvr hd).1 (by simp [hrest])
      rw [iterate, step_rsplitTerminator, he]
      simp only [hk, hbv]
      conv => rhs; rw [rsplitGo]
      simp [hf, hrest, rsplitGo_nil_hay hne]
    · have hfl' : (p.str.take i).isEmpty = false := by simpa using hrest
      obtain ⟨k, hk, htk⟩ := hrec
        ⟨.fromEnd, (p.str.take i).isEmpty, p.startOffset, p.str.take i⟩ rfl hfl' hvr
      refine ⟨k, ?_, htk⟩
      rw [iterate, step_rsplitTerminator, h1]
      simp only [hk, hbv]
      conv => rhs; rw [rsplitGo]
      simp only [hf]
      rw [List.dropLast_cons_of_ne_nil (rsplitGo_ne_nil d n _)]
  intro n
  induction n with
  | zero =>
    intro p hlen hfl hv
    cases hf : rfindSpec p.str d with
    | some i => have := rfindSpec_le hne hf; omega
    | none => exact fail 0 p hfl hv hf
  | succ m ih =>
    intro p hlen hfl hv
    cases hf : rfindSpec p.str d with
    | none => exact fail (m + 1) p hfl hv hf
    | some i =>
      have hle := rfindSpec_le hne hf
      refine succ_step (m + 1) p i hfl hv hf ?_
      intro q hq hqfl hqv
      exact ih q (by rw [hq, List.length_take]; omega) hqfl hqv

end Konst.Lemmas.ParserSplit
