import KonstVerif.Model.Bytes
import KonstVerif.Spec.Bytes
/-
  Helper lemmas for C04 / C05: the loops of Model/Bytes.lean in closed form.
-/
namespace Konst.Lemmas.Bytes
open Konst Konst.Bytes Konst.Spec.Bytes

/-! ### slicing through the C02 model -/

theorem sliceFrom_apply (l : List Nat) (i : Nat) : (Slice.sliceFrom l.length i).apply l = l.drop i := by
  unfold Slice.sliceFrom Slice.sliceFromImpl overflowingSub View.apply
  by_cases h : i ≤ l.length
  · simp [h]
    exact List.take_of_length_le (by simp)
  · simp [h]
    omega

theorem sliceUpTo_apply (l : List Nat) (n : Nat) : (Slice.sliceUpTo l.length n).apply l = l.take n := by
  unfold Slice.sliceUpTo Slice.sliceUpToImpl overflowingSub View.apply
  by_cases h : n ≤ l.length
  · simp [h]
  · simp [h]
    rw [List.take_of_length_le (by omega)]

theorem sliceFromL_eq (l : List Nat) (i : Nat) : sliceFromL l i = l.drop i := sliceFrom_apply l i
theorem sliceUpToL_eq (l : List Nat) (n : Nat) : sliceUpToL l n = l.take n := sliceUpTo_apply l n

theorem sliceFrom_inBounds (n i : Nat) : (Slice.sliceFrom n i).InBounds n := by
  unfold Slice.sliceFrom Slice.sliceFromImpl overflowingSub View.InBounds
  by_cases h : i ≤ n <;> simp [h] <;> omega

theorem sliceUpTo_inBounds (n i : Nat) : (Slice.sliceUpTo n i).InBounds n := by
  unfold Slice.sliceUpTo Slice.sliceUpToImpl overflowingSub View.InBounds
  by_cases h : i ≤ n <;> simp [h] <;> omega

/-! ### views of suffixes / prefixes -/

theorem suffixView_apply {h r : List Nat} (hs : r <:+ h) : (suffixView h r).apply h = r := by
  unfold suffixView View.apply
  rw [← List.suffix_iff_eq_drop.mp hs]
  exact List.take_of_length_le (Nat.le_refl _)

theorem prefixView_apply {h r : List Nat} (hp : r <+: h) : (prefixView r).apply h = r := by
  unfold prefixView View.apply
  simp only [List.drop_zero]
  exact (List.prefix_iff_eq_take.mp hp).symm

theorem suffixView_inBounds {h r : List Nat} (hs : r <:+ h) : (suffixView h r).InBounds h.length := by
  have := hs.length_le
  unfold suffixView View.InBounds; simp only; omega

theorem prefixView_inBounds {h r : List Nat} (hp : r <+: h) : (prefixView r).InBounds h.length := by
  have := hp.length_le
  unfold prefixView View.InBounds; simp only; omega

/-! ### strip_prefix / starts_with -/

theorem stripPrefixLoop_eq : ∀ (l p : List Nat), p.length ≤ l.length →
    stripPrefixLoop l p = if p.isPrefixOf l then some (l.drop p.length) else none := by
  intro l p
  induction p generalizing l with
  | nil => intro _; cases l <;> simp [stripPrefixLoop]
  | cons b p ih =>
    intro h
    cases l with
    | nil => simp at h
    | cons a l =>
      simp only [List.length_cons, Nat.add_le_add_iff_right] at h
      simp only [stripPrefixLoop, List.isPrefixOf]
      by_cases hab : a = b
      · subst hab; simp [ih l h]
      · have hne : b ≠ a := fun e => hab e.symm
        simp [hab, hne]

theorem isPrefixOf_false_of_length_lt {p l : List Nat} (h : l.length < p.length) :
    p.isPrefixOf l = false := by
  cases hp : p.isPrefixOf l with
  | false => rfl
  | true =>
    have := List.IsPrefix.length_le (List.isPrefixOf_iff_prefix.mp hp)
    omega

theorem isSuffixOf_false_of_length_lt {p l : List Nat} (h : l.length < p.length) :
    p.isSuffixOf l = false := by
  cases hp : p.isSuffixOf l with
  | false => rfl
  | true =>
    have := List.IsSuffix.length_le (List.isSuffixOf_iff_suffix.mp hp)
    omega

theorem stripPrefixL_eq (l p : List Nat) : stripPrefixL l p = stripPrefixSpec l p := by
  unfold stripPrefixL stripPrefixSpec
  by_cases h : l.length < p.length
  · simp [h, isPrefixOf_false_of_length_lt h]
  · simp [h, stripPrefixLoop_eq l p (by omega)]

theorem startsWith_eq (l p : List Nat) : startsWith l p = p.isPrefixOf l := by
  unfold startsWith; rw [stripPrefixL_eq]; unfold stripPrefixSpec
  cases p.isPrefixOf l <;> simp

/-! ### strip_suffix / ends_with: the back-consuming loop is the mirror image -/

theorem nil_or_snoc (l : List Nat) : l = [] ∨ ∃ l' a, l = l' ++ [a] := by
  rcases List.eq_nil_or_concat l with h | ⟨l', a, h⟩
  · exact Or.inl h
  · exact Or.inr ⟨l', a, by rw [h, List.concat_eq_append]⟩

theorem stripSuffixLoop_mirror : ∀ (fuel : Nat) (l r : List Nat), l.length < fuel →
    stripSuffixLoop fuel l r = (stripPrefixLoop l.reverse r.reverse).map List.reverse := by
  intro fuel
  induction fuel with
  | zero => intro l r h; omega
  | succ fuel ih =>
    intro l r hlt
    rcases nil_or_snoc l with rfl | ⟨l', a, rfl⟩
    · cases r <;> simp [stripSuffixLoop, stripPrefixLoop]
    · rcases nil_or_snoc r with rfl | ⟨r', b, rfl⟩
      · simp [stripSuffixLoop, stripPrefixLoop]
      · simp only [stripSuffixLoop, List.getLast?_concat, List.dropLast_concat,
          List.reverse_append, List.reverse_cons, List.reverse_nil, List.nil_append,
          List.singleton_append, stripPrefixLoop]
        by_cases hab : a = b
        · subst hab
          simp only [bne_self_eq_false, Bool.false_eq_true, if_false]
          apply ih
          simp at hlt; omega
        · simp [hab]

theorem stripSuffixL_eq (l p : List Nat) : stripSuffixL l p = stripSuffixSpec l p := by
  unfold stripSuffixL stripSuffixSpec
  by_cases h : l.length < p.length
  · simp [h, isSuffixOf_false_of_length_lt h]
  · simp only [h, if_false]
    rw [stripSuffixLoop_mirror _ l p (by omega),
      stripPrefixLoop_eq l.reverse p.reverse (by simp; omega)]
    simp only [List.isSuffixOf]
    by_cases hp : p.reverse.isPrefixOf l.reverse = true
    · simp [hp, List.drop_reverse]
    · simp [hp]

theorem endsWith_eq (l p : List Nat) : endsWith l p = p.isSuffixOf l := by
  unfold endsWith; rw [stripSuffixL_eq]; unfold stripSuffixSpec
  cases p.isSuffixOf l <;> simp

/-! ### search -/

theorem occursAt_false_of_short {h p : List Nat} {j : Nat} (hlen : h.length < j + p.length) (hp : p ≠ []) :
    occursAt h p j = false := by
  unfold occursAt
  apply isPrefixOf_false_of_length_lt
  have : 0 < p.length := List.length_pos_iff.mpr hp
  simp only [List.length_drop]; omega

theorem occursAt_nil (h : List Nat) (j : Nat) : occursAt h [] j = true := by
  unfold occursAt; simp

/-- what the forward window loop returns: the least occurrence at or after `i`, given that there is
    none before `i` -/
theorem findLoop_spec (h p : List Nat) : ∀ (fuel i : Nat), h.length + 1 ≤ i + fuel →
    (∀ j, j < i → occursAt h p j = false) →
    (∀ k, findLoop h p fuel i = some k →
        occursAt h p k = true ∧ k ≤ h.length ∧ ∀ j, j < k → occursAt h p j = false) ∧
    (findLoop h p fuel i = none → ∀ j, j ≤ h.length → occursAt h p j = false) := by
  intro fuel
  induction fuel with
  | zero =>
    intro i hi hinv
    simp only [findLoop]
    refine ⟨(by intro k hk; cases hk), fun _ j hj => hinv j (by omega)⟩
  | succ fuel ih =>
    intro i hi hinv
    simp only [findLoop, sliceFromL_eq, startsWith_eq]
    by_cases hw : i + p.length ≤ h.length
    · simp only [hw, if_true]
      by_cases ho : p.isPrefixOf (h.drop i) = true
      · simp only [ho, if_true]
        refine ⟨?_, (by intro hk; cases hk)⟩
        intro k hk
        cases hk
        exact ⟨ho, by omega, hinv⟩
      · simp only [ho]
        apply ih (i + 1) (by omega)
        intro j hj
        by_cases hji : j < i
        · exact hinv j hji
        · have : j = i := by omega
          subst this
          exact Bool.eq_false_iff.mpr ho
    · simp only [hw, if_false]
      refine ⟨(by intro k hk; cases hk), ?_⟩
      intro _ j hj
      by_cases hji : j < i
      · exact hinv j hji
      · by_cases hp : p = []
        · subst hp; simp at hw; omega
        · exact occursAt_false_of_short (by omega) hp

theorem bytesFind_eq_spec (h p : List Nat) : bytesFind h p = findSpec h p := by
  have key := findLoop_spec h p (h.length + 1) 0 (by omega) (by intro j hj; omega)
  unfold bytesFind findSpec
  cases hr : findLoop h p (h.length + 1) 0 with
  | none =>
    symm
    rw [List.find?_range_eq_none]
    intro i hi
    simp [key.2 hr i (by omega)]
  | some k =>
    obtain ⟨h1, h2, h3⟩ := key.1 k hr
    symm
    rw [List.find?_range_eq_some]
    refine ⟨h1, by simp; omega, ?_⟩
    intro j hj
    simp [h3 j hj]

theorem revFind_range_some (q : Nat → Bool) : ∀ (n i : Nat),
    (List.range n).reverse.find? q = some i ↔ q i = true ∧ i < n ∧ ∀ j, i < j → j < n → q j = false := by
  intro n
  induction n with
  | zero => intro i; simp
  | succ n ih =>
    intro i
    rw [List.range_succ, List.reverse_append, List.reverse_cons, List.reverse_nil, List.nil_append,
      List.singleton_append, List.find?_cons]
    by_cases hq : q n = true
    · simp only [hq, Option.some.injEq]
      constructor
      · intro e; subst e
        exact ⟨hq, (by omega), (by intro j h1 h2; omega)⟩
      · intro ⟨h1, h2, h3⟩
        by_cases hin : i = n
        · exact hin.symm
        · have := h3 n (by omega) (by omega)
          simp [hq] at this
    · have hq' : q n = false := by simpa using hq
      simp only [hq', ih]
      constructor
      · intro ⟨h1, h2, h3⟩
        refine ⟨h1, by omega, ?_⟩
        intro j hj1 hj2
        by_cases hjn : j = n
        · subst hjn; exact hq'
        · exact h3 j hj1 (by omega)
      · intro ⟨h1, h2, h3⟩
        have hin : i ≠ n := by intro e; subst e; simp [hq'] at h1
        exact ⟨h1, by omega, fun j hj1 hj2 => h3 j hj1 (by omega)⟩

theorem revFind_range_none (q : Nat → Bool) (n : Nat) :
    (List.range n).reverse.find? q = none ↔ ∀ j, j < n → q j = false := by
  rw [List.find?_eq_none]
  simp only [List.mem_reverse, List.mem_range, Bool.not_eq_true]

theorem rfindLoop_spec (h p : List Nat) : ∀ (n : Nat),
    (∀ k, rfindLoop h p n = some k →
        occursAt h p k = true ∧ k < n ∧ ∀ j, k < j → j < n → occursAt h p j = false) ∧
    (rfindLoop h p n = none → ∀ j, j < n → occursAt h p j = false) := by
  intro n
  induction n with
  | zero =>
    simp only [rfindLoop]
    exact ⟨(by intro k hk; cases hk), (by intro _ j hj; omega)⟩
  | succ n ih =>
    simp only [rfindLoop, sliceFromL_eq, startsWith_eq]
    by_cases ho : p.isPrefixOf (h.drop n) = true
    · simp only [ho, if_true]
      refine ⟨?_, (by intro hk; cases hk)⟩
      intro k hk; cases hk
      exact ⟨ho, (by omega), (by intro j h1 h2; omega)⟩
    · have ho' : occursAt h p n = false := Bool.eq_false_iff.mpr ho
      simp only [ho]
      refine ⟨?_, ?_⟩
      · intro k hk
        obtain ⟨h1, h2, h3⟩ := ih.1 k hk
        refine ⟨h1, by omega, ?_⟩
        intro j hj1 hj2
        by_cases hjn : j = n
        · subst hjn; exact ho'
        · exact h3 j hj1 (by omega)
      · intro hk j hj
        by_cases hjn : j = n
        · subst hjn; exact ho'
        · exact ih.2 hk j (by omega)

theorem bytesRfind_eq_spec (h p : List Nat) (hp : p ≠ []) : bytesRfind h p = rfindSpec h p := by
  have hemp : p.isEmpty = false := by cases p <;> simp_all
  have hpos : 0 < p.length := List.length_pos_iff.mpr hp
  unfold bytesRfind rfindSpec
  simp only [hemp, Bool.false_eq_true, if_false]
  by_cases hlen : p.length > h.length
  · simp only [hlen, if_true]
    symm
    rw [revFind_range_none]
    intro j hj
    exact occursAt_false_of_short (by omega) hp
  · simp only [hlen, if_false]
    have key := rfindLoop_spec h p (h.length - p.length + 1)
    cases hr : rfindLoop h p (h.length - p.length + 1) with
    | none =>
      symm
      rw [revFind_range_none]
      intro j hj
      by_cases hj2 : j < h.length - p.length + 1
      · exact key.2 hr j hj2
      · exact occursAt_false_of_short (by omega) hp
    | some k =>
      obtain ⟨h1, h2, h3⟩ := key.1 k hr
      symm
      rw [revFind_range_some]
      refine ⟨h1, by omega, ?_⟩
      intro j hj1 hj2
      by_cases hj3 : j < h.length - p.length + 1
      · exact h3 j hj1 hj3
      · exact occursAt_false_of_short (by omega) hp

/-! ### pattern trimming -/

theorem trimStartInner_eq : ∀ (this m : List Nat),
    trimStartInner this m = if m.isPrefixOf this then some (this.drop m.length) else none := by
  intro this m
  induction m generalizing this with
  | nil => cases this <;> simp [trimStartInner]
  | cons bm remm ih =>
    cases this with
    | nil => simp [trimStartInner, List.isPrefixOf]
    | cons b rem =>
      simp only [trimStartInner, List.isPrefixOf, List.length_cons, List.drop_succ_cons]
      by_cases hb : b = bm
      · subst hb; simp [ih rem]
      · have : bm ≠ b := fun e => hb e.symm
        simp [hb, this]

theorem trimStartLoop_eq (needle : List Nat) (hn : needle ≠ []) : ∀ (fuel : Nat) (this : List Nat),
    this.length < fuel → trimStartLoop needle fuel this = trimStartSpec needle this := by
  intro fuel
  induction fuel with
  | zero => intro this h; omega
  | succ fuel ih =>
    intro this hlt
    obtain ⟨bm, remm, rfl⟩ : ∃ bm remm, needle = bm :: remm := by
      cases needle with
      | nil => exact absurd rfl hn
      | cons a b => exact ⟨a, b, rfl⟩
    cases this with
    | nil =>
      rw [trimStartSpec]
      simp [trimStartLoop, List.isPrefixOf]
    | cons b rem =>
      rw [trimStartSpec]
      simp only [trimStartLoop, List.isPrefixOf]
      by_cases hb : b = bm
      · subst hb
        simp only [beq_self_eq_true, if_true, trimStartInner_eq]
        by_cases hp : remm.isPrefixOf rem = true
        · have hlen := List.IsPrefix.length_le (List.isPrefixOf_iff_prefix.mp hp)
          simp only [hp, if_true, ne_eq, reduceCtorEq, not_false_eq_true,
            List.length_cons, List.drop_succ_cons]
          rw [dif_pos (by simp)]
          apply ih
          simp only [List.length_cons] at hlt
          simp only [List.length_drop]; omega
        · simp [hp]
      · have : bm ≠ b := fun e => hb e.symm
        simp [hb, this]

theorem trimStartMatchesL_eq (this needle : List Nat) :
    trimStartMatchesL this needle = trimStartSpec needle this := by
  unfold trimStartMatchesL
  by_cases he : needle = []
  · subst he; rw [trimStartSpec]; simp
  · have hemp : needle.isEmpty = false := by cases needle <;> simp_all
    simp only [hemp, Bool.false_eq_true, if_false]
    exact trimStartLoop_eq needle he _ this (by omega)

theorem trimStartSpec_suffix (p : List Nat) : ∀ (n : Nat) (h : List Nat), h.length = n →
    trimStartSpec p h <:+ h := by
  intro n
  induction n using Nat.strongRecOn with
  | _ n ih =>
    intro h hn
    rw [trimStartSpec]
    by_cases hp : p ≠ [] ∧ p.isPrefixOf h = true
    · simp only [hp, ne_eq, not_false_eq_true, and_self, dite_true]
      have hne : 0 < p.length := List.length_pos_iff.mpr hp.1
      have hle := List.IsPrefix.length_le (List.isPrefixOf_iff_prefix.mp hp.2)
      exact List.IsSuffix.trans (ih (h.drop p.length).length (by simp; omega) _ rfl) (List.drop_suffix _ _)
    · simp only [hp, dite_false]
      exact List.suffix_refl h

theorem trimEndSpec_prefix (p : List Nat) : ∀ (n : Nat) (h : List Nat), h.length = n →
    trimEndSpec p h <+: h := by
  intro n
  induction n using Nat.strongRecOn with
  | _ n ih =>
    intro h hn
    rw [trimEndSpec]
    by_cases hp : p ≠ [] ∧ p.isSuffixOf h = true
    · simp only [hp, ne_eq, not_false_eq_true, and_self, dite_true]
      have hne : 0 < p.length := List.length_pos_iff.mpr hp.1
      have hle := List.IsSuffix.length_le (List.isSuffixOf_iff_suffix.mp hp.2)
      exact List.IsPrefix.trans (ih (h.take (h.length - p.length)).length (by simp; omega) _ rfl)
        (List.take_prefix _ _)
    · simp only [hp, dite_false]
      exact List.prefix_refl h

/-- the specification of trimming at the end is the mirror image of trimming at the start -/
theorem trimEndSpec_mirror (p : List Nat) : ∀ (n : Nat) (h : List Nat), h.length = n →
    trimEndSpec p h = (trimStartSpec p.reverse h.reverse).reverse := by
  intro n
  induction n using Nat.strongRecOn with
  | _ n ih =>
    intro h hn
    rw [trimEndSpec, trimStartSpec]
    have hiff : (p ≠ [] ∧ p.isSuffixOf h = true) ↔ (p.reverse ≠ [] ∧ p.reverse.isPrefixOf h.reverse = true) := by
      simp [List.isSuffixOf]
    by_cases hp : p ≠ [] ∧ p.isSuffixOf h = true
    · have hp' := hiff.mp hp
      rw [dif_pos hp, dif_pos hp']
      have hne : 0 < p.length := List.length_pos_iff.mpr hp.1
      have hle := List.IsSuffix.length_le (List.isSuffixOf_iff_suffix.mp hp.2)
      rw [ih (h.take (h.length - p.length)).length (by simp; omega) _ rfl]
      rw [List.reverse_take]
      congr 2
      simp only [List.length_reverse]
      congr 1
      omega
    · have hp' := fun c => hp (hiff.mpr c)
      rw [dif_neg hp, dif_neg hp']
      simp

theorem trimEndInner_mirror : ∀ (fuel : Nat) (this m : List Nat), m.length < fuel →
    trimEndInner fuel this m = (trimStartInner this.reverse m.reverse).map List.reverse := by
  intro fuel
  induction fuel with
  | zero => intro this m h; omega
  | succ fuel ih =>
    intro this m hlt
    rcases nil_or_snoc m with rfl | ⟨m', bm, rfl⟩
    · cases hthis : this.getLast? <;> cases hr : this.reverse <;> simp [trimEndInner, trimStartInner, hthis]
      all_goals simp_all
    · rcases nil_or_snoc this with rfl | ⟨this', b, rfl⟩
      · simp [trimEndInner, trimStartInner]
      · simp only [trimEndInner, List.getLast?_concat, List.dropLast_concat,
          List.reverse_append, List.reverse_cons, List.reverse_nil, List.nil_append,
          List.singleton_append, trimStartInner]
        by_cases hab : b = bm
        · subst hab
          simp only [beq_self_eq_true, if_true]
          apply ih
          simp at hlt; omega
        · simp [hab]

theorem trimEndLoop_mirror (needle : List Nat) : ∀ (fuel : Nat) (this : List Nat),
    trimEndLoop needle fuel this = (trimStartLoop needle.reverse fuel this.reverse).reverse := by
  intro fuel
  induction fuel with
  | zero => intro this; simp [trimEndLoop, trimStartLoop]
  | succ fuel ih =>
    intro this
    rcases nil_or_snoc this with rfl | ⟨this', b, rfl⟩
    · cases hn : needle.reverse <;> simp [trimEndLoop, trimStartLoop]
    · rcases nil_or_snoc needle with rfl | ⟨n', bm, rfl⟩
      · simp [trimEndLoop, trimStartLoop]
      · simp only [trimEndLoop, List.getLast?_concat, List.dropLast_concat,
          List.reverse_append, List.reverse_cons, List.reverse_nil, List.nil_append,
          List.singleton_append, trimStartLoop]
        by_cases hab : b = bm
        · subst hab
          simp only [beq_self_eq_true, if_true]
          rw [trimEndInner_mirror _ this' n' (by simp only [List.length_append, List.length_cons, List.length_nil]; omega)]
          cases hin : trimStartInner this'.reverse n'.reverse with
          | none => simp
          | some r =>
            simp only [Option.map_some]
            rw [ih r.reverse]
            simp
        · simp [hab]

theorem trimEndMatchesL_eq (this needle : List Nat) :
    trimEndMatchesL this needle = trimEndSpec needle this := by
  unfold trimEndMatchesL
  by_cases he : needle = []
  · subst he; rw [trimEndSpec]; simp
  · have hemp : needle.isEmpty = false := by cases needle <;> simp_all
    simp only [hemp, Bool.false_eq_true, if_false]
    rw [trimEndLoop_mirror, trimEndSpec_mirror needle _ this rfl,
      trimStartLoop_eq needle.reverse (by simpa using he) _ this.reverse (by simp)]

/-! ### whitespace trimming -/

theorem matchesSpace_eq (b : Nat) : matchesSpace b = isAsciiWhitespace b := by
  unfold matchesSpace isAsciiWhitespace
  simp only [List.contains, List.elem]
  cases (b == 9) <;> cases (b == 10) <;> cases (b == 12) <;> cases (b == 13) <;> cases (b == 32) <;> rfl

theorem bytesTrimStartL_eq : ∀ (h : List Nat), bytesTrimStartL h = trimAsciiStartSpec h := by
  intro h
  unfold trimAsciiStartSpec
  induction h with
  | nil => simp [bytesTrimStartL]
  | cons b rem ih =>
    simp only [bytesTrimStartL, List.dropWhile_cons, matchesSpace_eq]
    by_cases hb : isAsciiWhitespace b = true
    · simp [hb, ih]
    · simp [hb]

theorem bytesTrimEndLoop_mirror : ∀ (fuel : Nat) (this : List Nat), this.length < fuel →
    bytesTrimEndLoop fuel this = (bytesTrimStartL this.reverse).reverse := by
  intro fuel
  induction fuel with
  | zero => intro this h; omega
  | succ fuel ih =>
    intro this hlt
    rcases nil_or_snoc this with rfl | ⟨this', b, rfl⟩
    · simp [bytesTrimEndLoop, bytesTrimStartL]
    · simp only [bytesTrimEndLoop, List.getLast?_concat, List.dropLast_concat,
        List.reverse_append, List.reverse_cons, List.reverse_nil, List.nil_append,
        List.singleton_append, bytesTrimStartL]
      by_cases hb : matchesSpace b = true
      · simp only [hb, if_true]
        apply ih
        simp at hlt; omega
      · simp [hb]

theorem bytesTrimEndL_eq (h : List Nat) : bytesTrimEndL h = trimAsciiEndSpec h := by
  unfold bytesTrimEndL trimAsciiEndSpec
  rw [bytesTrimEndLoop_mirror _ h (by omega), bytesTrimStartL_eq]
  rfl

/-- end-trimming one element further to the left -/
theorem revDropWhile_cons (q : Nat → Bool) (a : Nat) (t : List Nat) :
    ((a :: t).reverse.dropWhile q).reverse =
      if (t.reverse.dropWhile q).reverse.isEmpty then [a].dropWhile q
      else a :: (t.reverse.dropWhile q).reverse := by
  rw [List.reverse_cons, List.dropWhile_append]
  by_cases he : (t.reverse.dropWhile q).isEmpty = true
  · have : (t.reverse.dropWhile q) = [] := by simpa using he
    simp only [this, List.isEmpty_nil, if_true, List.reverse_nil]
    by_cases hq : q a = true <;> simp [hq]
  · have hne : (t.reverse.dropWhile q) ≠ [] := by simpa using he
    simp [hne]

/-- trimming the end and then the start = trimming the start and then the end -/
theorem trim_commute (q : Nat → Bool) : ∀ (h : List Nat),
    (h.reverse.dropWhile q).reverse.dropWhile q = ((h.dropWhile q).reverse.dropWhile q).reverse := by
  intro h
  induction h with
  | nil => simp
  | cons a t ih =>
    rw [revDropWhile_cons]
    by_cases hq : q a = true
    · simp only [List.dropWhile_cons, hq, if_true]
      rw [← ih]
      by_cases he : (t.reverse.dropWhile q).reverse.isEmpty = true
      · have : (t.reverse.dropWhile q).reverse = [] := by simpa using he
        simp [this]
      · simp [he, hq]
    · have hq' : q a = false := by simpa using hq
      rw [List.dropWhile_cons (x := a) (xs := t)]
      simp only [hq', Bool.false_eq_true, if_false]
      rw [revDropWhile_cons]
      by_cases he : (t.reverse.dropWhile q).reverse.isEmpty = true
      · simp [he, hq']
      · simp [he, hq']

theorem bytesTrim_eq (h : List Nat) :
    bytesTrimStartL (bytesTrimEndL h) = trimAsciiSpec h := by
  rw [bytesTrimEndL_eq, bytesTrimStartL_eq]
  unfold trimAsciiSpec trimAsciiStartSpec trimAsciiEndSpec
  exact trim_commute _ h

theorem dropWhile_suffix' (q : Nat → Bool) (h : List Nat) : h.dropWhile q <:+ h :=
  List.dropWhile_suffix q

theorem revDropWhile_prefix (q : Nat → Bool) (h : List Nat) : (h.reverse.dropWhile q).reverse <+: h := by
  have := List.dropWhile_suffix (l := h.reverse) q
  have := List.reverse_prefix.mpr this
  simpa using this

/-! ### composition of views -/

theorem comp_apply (v w : View) (h : List Nat) (hb : w.off + w.len ≤ v.len) :
    (v.comp w).apply h = w.apply (v.apply h) := by
  unfold View.comp View.apply
  simp only [List.drop_take, List.take_take, List.drop_drop]
  congr 1
  omega

end Konst.Lemmas.Bytes
