import KonstVerif.Spec.Utf8
import KonstVerif.Model.StrFns
/-
  A byte-wise match of a valid non-empty needle inside a valid haystack starts and ends on char
  boundaries (the "safety comment" of konst/src/string.rs), proved for any self-synchronising code
  (lead byte determines the length, all other bytes are continuation bytes) and instantiated for
  UTF-8 (`Spec/Utf8.lean`).  Used by C04 (`split_once`/`rsplit_once` never reach the
  `non_char_boundary_panic` on `&str` arguments).  Ported from notes/prototypes/Sync.lean and
  SyncMatch.lean.
-/
namespace Konst.Lemmas.SyncMatch

structure Code where
  enc  : Nat → List Nat
  cont : Nat → Bool
  clen : Nat → Nat
  ok   : ∀ c, ∃ b t, enc c = b :: t ∧ cont b = false ∧ (∀ x ∈ t, cont x = true) ∧ t.length + 1 = clen b

variable (K : Code)

def encs (cs : List Nat) : List Nat := cs.flatMap K.enc

@[simp] theorem encs_nil : encs K [] = [] := rfl
@[simp] theorem encs_cons (c : Nat) (cs : List Nat) : encs K (c :: cs) = K.enc c ++ encs K cs := by
  simp [encs]

/-- `i` is a char boundary of `encs cs` -/
def Boundary (cs : List Nat) (i : Nat) : Prop := ∃ k, i = (encs K (cs.take k)).length

theorem boundary_zero (cs) : Boundary K cs 0 := ⟨0, by simp⟩
theorem boundary_len (cs) : Boundary K cs (encs K cs).length := ⟨cs.length, by simp⟩

/-- the byte test used by konst/std: position is the end, or the byte there is not a continuation byte -/
def ByteTest (s : List Nat) (i : Nat) : Prop := i = s.length ∨ ∃ b, s[i]? = some b ∧ K.cont b = false

theorem boundary_iff : ∀ (cs : List Nat) (i : Nat), i ≤ (encs K cs).length →
    (Boundary K cs i ↔ ByteTest K (encs K cs) i) := by
  intro cs
  induction cs with
  | nil =>
    intro i hi
    simp at hi; subst hi
    exact ⟨fun _ => Or.inl (by simp), fun _ => boundary_zero K []⟩
  | cons c cs ih =>
    intro i hi
    obtain ⟨b, t, he, hb, ht, _⟩ := K.ok c
    by_cases h0 : i = 0
    · subst h0
      refine ⟨fun _ => Or.inr ⟨b, by simp [he], hb⟩, fun _ => boundary_zero K _⟩
    by_cases hlt : i < (K.enc c).length
    · -- strictly inside the first char: continuation byte, not a boundary
      have hpos : 0 < i := Nat.pos_of_ne_zero h0
      have hget : (encs K (c :: cs))[i]? = some (t[i-1]'(by simp [he] at hlt; omega)) := by
        simp only [encs_cons, he]
        rw [List.getElem?_append_left (by simpa [he] using hlt)]
        obtain ⟨j, rfl⟩ : ∃ j, i = j + 1 := ⟨i - 1, by omega⟩
        simp
      constructor
      · rintro ⟨k, hk⟩
        exfalso
        cases k with
        | zero => simp at hk; exact h0 hk
        | succ k => simp only [List.take_succ_cons, encs_cons, List.length_append] at hk; omega
      · rintro (h | ⟨b', hb', hc⟩)
        · exfalso; simp only [encs_cons, List.length_append] at h; omega
        · exfalso
          rw [hget] at hb'
          have hbe : t[i-1]'(by simp [he] at hlt; omega) = b' := by simpa using hb'
          have : K.cont b' = true := by
            have := ht (t[i-1]'(by simp [he] at hlt; omega)) (List.getElem_mem _)
            rwa [hbe] at this
          simp [this] at hc
    · -- at or after the end of the first char: shift
      have hge : (K.enc c).length ≤ i := Nat.le_of_not_lt hlt
      have hi' : i - (K.enc c).length ≤ (encs K cs).length := by
        simp only [encs_cons, List.length_append] at hi; omega
      have IH := ih (i - (K.enc c).length) hi'
      constructor
      · rintro ⟨k, hk⟩
        cases k with
        | zero => simp at hk; exact absurd hk h0
        | succ k =>
          simp only [List.take_succ_cons, encs_cons, List.length_append] at hk
          have hb2 : Boundary K cs (i - (K.enc c).length) := ⟨k, by omega⟩
          rcases IH.mp hb2 with h | ⟨b', hb', hc⟩
          · left; simp only [encs_cons, List.length_append]; omega
          · right; refine ⟨b', ?_, hc⟩
            simp only [encs_cons]
            rw [List.getElem?_append_right hge]; exact hb'
      · intro h
        have : ByteTest K (encs K cs) (i - (K.enc c).length) := by
          rcases h with h | ⟨b', hb', hc⟩
          · left; simp only [encs_cons, List.length_append] at h; omega
          · right; refine ⟨b', ?_, hc⟩
            simp only [encs_cons] at hb'
            rw [List.getElem?_append_right hge] at hb'; exact hb'
        obtain ⟨k, hk⟩ := IH.mpr this
        exact ⟨k + 1, by simp only [List.take_succ_cons, encs_cons, List.length_append]; omega⟩





theorem encs_append (as bs : List Nat) : encs K (as ++ bs) = encs K as ++ encs K bs := by
  simp [encs]

theorem enc_ne_nil (c : Nat) : K.enc c ≠ [] := by
  obtain ⟨b, t, he, _⟩ := K.ok c
  simp [he]

/-- byte-level prefix between two encoded strings is a prefix in whole characters -/
theorem prefix_chars : ∀ (ps ds : List Nat), encs K ps <+: encs K ds →
    ∃ m, encs K ps = encs K (ds.take m) := by
  intro ps
  induction ps with
  | nil => intro ds _; exact ⟨0, by simp⟩
  | cons p ps ih =>
    intro ds h
    obtain ⟨b, t, hep, hb, _, hlen⟩ := K.ok p
    cases ds with
    | nil =>
      exfalso
      have := List.IsPrefix.length_le h
      simp [hep] at this
    | cons d ds =>
      obtain ⟨b', t', hed, _, _, hlen'⟩ := K.ok d
      simp only [encs_cons] at h
      -- same first byte
      have hbb : b = b' := by
        obtain ⟨r, hr⟩ := h
        rw [hep, hed] at hr
        simp only [List.cons_append, List.cons.injEq] at hr
        exact hr.1
      subst hbb
      have hl : (K.enc p).length = (K.enc d).length := by
        rw [hep, hed]; simp only [List.length_cons]; omega
      -- hence the first characters are the same bytes
      have hpd : K.enc p = K.enc d := by
        obtain ⟨r, hr⟩ := h
        have h1 := congrArg (List.take (K.enc p).length) hr
        rw [List.append_assoc, List.take_left' rfl, hl, List.take_left' rfl] at h1
        exact h1
      have hrest : encs K ps <+: encs K ds := by
        rw [hpd] at h
        exact (List.prefix_append_right_inj _).mp h
      obtain ⟨m, hm⟩ := ih ds hrest
      exact ⟨m + 1, by simp [encs_cons, hpd, hm]⟩

theorem drop_encs_take (cs : List Nat) (k : Nat) :
    (encs K cs).drop (encs K (cs.take k)).length = encs K (cs.drop k) := by
  have h : encs K cs = encs K (cs.take k) ++ encs K (cs.drop k) := by
    rw [← encs_append, List.take_append_drop]
  conv => lhs; arg 2; rw [h]
  exact List.drop_left' rfl

theorem match_on_boundaries (cs ps : List Nat) (hps : ps ≠ []) (i : Nat)
    (hm : encs K ps <+: (encs K cs).drop i) :
    Boundary K cs i ∧ Boundary K cs (i + (encs K ps).length) := by
  -- first byte of the needle is a lead byte sitting at position i of the haystack
  obtain ⟨p, ps', rfl⟩ : ∃ p ps', ps = p :: ps' := by
    cases ps with
    | nil => exact absurd rfl hps
    | cons a b => exact ⟨a, b, rfl⟩
  obtain ⟨b, t, hep, hb, _, _⟩ := K.ok p
  have hlt : i < (encs K cs).length := by
    have := List.IsPrefix.length_le hm
    simp only [encs_cons, hep, List.length_append, List.length_cons, List.length_drop] at this
    omega
  have hget : (encs K cs)[i]? = some b := by
    obtain ⟨r, hr⟩ := hm
    have : ((encs K cs).drop i)[0]? = some b := by
      rw [← hr]; simp [encs_cons, hep]
    simpa using this
  have hbi : Boundary K cs i :=
    (boundary_iff K cs i (by omega)).mpr (Or.inr ⟨b, hget, hb⟩)
  refine ⟨hbi, ?_⟩
  obtain ⟨k, hk⟩ := hbi
  subst hk
  rw [drop_encs_take] at hm
  obtain ⟨m, hm'⟩ := prefix_chars K (p :: ps') (cs.drop k) hm
  refine ⟨k + m, ?_⟩
  rw [hm']
  have : cs.take (k + m) = cs.take k ++ (cs.drop k).take m := by
    rw [List.take_add]
  rw [this, encs_append, List.length_append]


/-! ### the UTF-8 instance -/

open Konst.Spec in
/-- length of a UTF-8 sequence from its lead byte -/
def utf8LenOfLead (b : Nat) : Nat := if b < 0x80 then 1 else if b < 0xE0 then 2 else if b < 0xF0 then 3 else 4

open Konst.Spec in
/-- UTF-8 (RFC 3629, `Spec/Utf8.lean`) is such a code — for every `c`, scalar or not -/
def utf8 : Code where
  enc := Utf8.enc
  cont := Utf8.isCont
  clen := utf8LenOfLead
  ok := by
    intro c
    unfold Utf8.enc
    by_cases h1 : c < 0x80
    · refine ⟨c, [], by simp [h1], ?_, by simp, ?_⟩
      · simp only [Utf8.isCont, Bool.and_eq_false_imp, decide_eq_true_eq, decide_eq_false_iff_not]; omega
      · simp [utf8LenOfLead, h1]
    · by_cases h2 : c < 0x800
      · refine ⟨0xC0 + c / 64, [0x80 + c % 64], by simp [h1, h2], ?_, ?_, ?_⟩
        · simp only [Utf8.isCont, Bool.and_eq_false_imp, decide_eq_true_eq, decide_eq_false_iff_not]; omega
        · intro x hx
          simp only [List.mem_singleton] at hx; subst hx
          simp only [Utf8.isCont, Bool.and_eq_true, decide_eq_true_eq]; omega
        · have : ¬ (0xC0 + c / 64 < 0x80) := by omega
          have : 0xC0 + c / 64 < 0xE0 := by omega
          simp [utf8LenOfLead, *]
      · by_cases h3 : c < 0x10000
        · refine ⟨0xE0 + c / 4096, [0x80 + c / 64 % 64, 0x80 + c % 64], by simp [h1, h2, h3], ?_, ?_, ?_⟩
          · simp only [Utf8.isCont, Bool.and_eq_false_imp, decide_eq_true_eq, decide_eq_false_iff_not]; omega
          · intro x hx
            simp only [List.mem_cons, List.mem_nil_iff, or_false] at hx
            rcases hx with hx | hx <;> subst hx <;>
              simp only [Utf8.isCont, Bool.and_eq_true, decide_eq_true_eq] <;> omega
          · have : ¬ (0xE0 + c / 4096 < 0x80) := by omega
            have : ¬ (0xE0 + c / 4096 < 0xE0) := by omega
            have : 0xE0 + c / 4096 < 0xF0 := by omega
            simp [utf8LenOfLead, *]
        · refine ⟨0xF0 + c / 262144, [0x80 + c / 4096 % 64, 0x80 + c / 64 % 64, 0x80 + c % 64],
            by simp [h1, h2, h3], ?_, ?_, ?_⟩
          · simp only [Utf8.isCont, Bool.and_eq_false_imp, decide_eq_true_eq, decide_eq_false_iff_not]; omega
          · intro x hx
            simp only [List.mem_cons, List.mem_nil_iff, or_false] at hx
            rcases hx with hx | hx | hx <;> subst hx <;>
              simp only [Utf8.isCont, Bool.and_eq_true, decide_eq_true_eq] <;> omega
          · have : ¬ (0xF0 + c / 262144 < 0x80) := by omega
            have : ¬ (0xF0 + c / 262144 < 0xE0) := by omega
            have : ¬ (0xF0 + c / 262144 < 0xF0) := by omega
            simp [utf8LenOfLead, *]

open Konst.Spec in
theorem encs_utf8 (cs : List Nat) : encs utf8 cs = Utf8.encs cs := rfl

open Konst.Spec Konst.StrFns in
/-- konst's byte test `(b as i8) >= -0x40` is "not a continuation byte" -/
theorem byteIsCharBoundary_eq (b : Nat) : byteIsCharBoundary b = !Utf8.isCont b := by
  unfold byteIsCharBoundary asI8 Utf8.isCont
  by_cases h1 : b < 128
  · have : ¬ (128 ≤ b) := by omega
    simp [h1, this]
  · by_cases h2 : b < 192
    · have e1 : ¬ ((-64 : Int) ≤ (b : Int) - 256) := by omega
      have e2 : 128 ≤ b := by omega
      simp [h1, h2, e1, e2]
    · have e1 : ((-64 : Int) ≤ (b : Int) - 256) := by omega
      simp [h1, h2, e1]

open Konst.Spec Konst.StrFns in
/-- a char boundary (prefix sum of char lengths) passes `__is_char_boundary_forgiving` -/
theorem forgiving_of_boundary (cs : List Nat) (i : Nat) (hb : Boundary utf8 cs i) :
    isCharBoundaryForgiving (Utf8.encs cs) i = true := by
  have hle : i ≤ (encs utf8 cs).length := by
    obtain ⟨k, hk⟩ := hb
    subst hk
    have : encs utf8 cs = encs utf8 (cs.take k) ++ encs utf8 (cs.drop k) := by
      rw [← encs_append, List.take_append_drop]
    rw [this]; simp
  unfold isCharBoundaryForgiving
  rcases (boundary_iff utf8 cs i hle).mp hb with h | ⟨b, hb1, hb2⟩
  · rw [← encs_utf8, h]; simp
  · rw [← encs_utf8, hb1]
    simp only [byteIsCharBoundary_eq]
    have : Utf8.isCont b = false := hb2
    simp [this]

end Konst.Lemmas.SyncMatch
