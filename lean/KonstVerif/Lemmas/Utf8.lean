import KonstVerif.Model.Utf8
import KonstVerif.Model.Chr
import KonstVerif.Spec.Utf8
/-
  UTF-8 lemma library shared by the string properties (C01, C03, C06, C07, C13 import it).
  Core Lean only.  STABLE NAMES (namespace `Konst.Lemmas.Utf8`):

  abstract self-synchronising codes (`Code`, `Sync.encs`, `Sync.Boundary`, `Sync.ByteTest`)
    Sync.boundary_iff          byte test ⇔ prefix sum of code-word lengths, any self-synchronising code
    Sync.prefix_chars          a byte-level prefix between encoded strings is a prefix in whole characters
    Sync.match_on_boundaries   abstract form of (iii)

  real UTF-8 (`utf8Code`, all statements about `Spec.Utf8.enc/encs/IsBoundary/Valid` and the model)
    enc_lt_256, encs_lt_256    bytes of scalar values are < 256
    enc_length                 `(enc c).length = clen c`, `clen_pos`, `clen_le_four`
    byteIsCharBoundary_eq      `(b as i8) >= -0x40` ⇔ not a continuation byte (b < 256)
    boundary_le                a boundary is ≤ the length
    mem_boundaries_iff         the executable `boundaries` list = `IsBoundary`
    (i)   boundary_iff         for scalar `cs`, all `i`: `isCharBoundary (encs cs) i = true ↔ IsBoundary cs i`
          forgiving_iff        `isCharBoundaryForgiving (encs cs) i = true ↔ i ≥ len ∨ IsBoundary cs i`
          boundary_split       a boundary cuts `encs cs` into `encs (cs.take k)` and `encs (cs.drop k)`
    (ii)  cut_valid            slicing a valid string at two boundaries `i ≤ j` is valid
          take_valid, drop_valid
    (iii) match_on_boundaries  a non-empty valid needle occurring byte-wise at offset `i` of a valid
                               haystack: `i` and `i + |needle|` are boundaries
    (iv)  encodeUtf8_eq_enc    `(encodeUtf8 c).asBytes = enc c` for every scalar value (in fact c < 2^21)
          stringToUsv_enc      `stringToUsv (enc c) = c` for all four lengths (c < 2^21)
          enc_injective, encs_injective, decodeOne_enc, decodeAll_encs
    (v)   findNext_first       `findNextCharBoundary (enc c ++ encs cs) 0 = (enc c).length`
          findPrev_last        `findPrevCharBoundary (encs cs ++ enc c) len = some (encs cs).length`
-/
namespace Konst.Lemmas.Utf8

/-! ## Abstract self-synchronising codes (port of notes/prototypes/Sync.lean, SyncMatch.lean) -/

/-- a variable-length code whose first byte is never a continuation byte, whose other bytes all
    are, and whose first byte determines the length -/
structure Code where
  enc  : Nat → List Nat
  cont : Nat → Bool
  clen : Nat → Nat
  ok   : ∀ c, ∃ b t, enc c = b :: t ∧ cont b = false ∧ (∀ x ∈ t, cont x = true) ∧ t.length + 1 = clen b

namespace Sync
variable (K : Code)

def encs (cs : List Nat) : List Nat := cs.flatMap K.enc

@[simp] theorem encs_nil : encs K [] = [] := rfl
@[simp] theorem encs_cons (c : Nat) (cs : List Nat) : encs K (c :: cs) = K.enc c ++ encs K cs := by
  simp [encs]

/-- `i` is a char boundary of `encs cs` -/
def Boundary (cs : List Nat) (i : Nat) : Prop := ∃ k, i = (encs K (cs.take k)).length

theorem boundary_zero (cs) : Boundary K cs 0 := ⟨0, by simp⟩
theorem boundary_len (cs) : Boundary K cs (encs K cs).length := ⟨cs.length, by simp⟩

/-- the byte test used by konst/std: position is the end, or the byte there is not a continuation byte -/
def ByteTest (s : List Nat) (i : Nat) : Prop := i = s.length ∨ ∃ b, s[i]? = some b ∧ K.cont b = false

theorem boundary_iff : ∀ (cs : List Nat) (i : Nat), i ≤ (encs K cs).length →
    (Boundary K cs i ↔ ByteTest K (encs K cs) i) := by
  intro cs
  induction cs with
  | nil =>
    intro i hi
    simp at hi; subst hi
    exact ⟨fun _ => Or.inl (by simp), fun _ => boundary_zero K []⟩
  | cons c cs ih =>
    intro i hi
    obtain ⟨b, t, he, hb, ht, _⟩ := K.ok c
    by_cases h0 : i = 0
    · subst h0
      refine ⟨fun _ => Or.inr ⟨b, by simp [he], hb⟩, fun _ => boundary_zero K _⟩
    by_cases hlt : i < (K.enc c).length
    · -- strictly inside the first char: continuation byte, not a boundary
      have hpos : 0 < i := Nat.pos_of_ne_zero h0
      have hget : (encs K (c :: cs))[i]? = some (t[i-1]'(by simp [he] at hlt; omega)) := by
        simp only [encs_cons, he]
        rw [List.getElem?_append_left (by simpa [he] using hlt)]
        obtain ⟨j, rfl⟩ : ∃ j, i = j + 1 := ⟨i - 1, by omega⟩
        simp
      constructor
      · rintro ⟨k, hk⟩
        exfalso
        cases k with
        | zero => simp at hk; exact h0 hk
        | succ k => simp only [List.take_succ_cons, encs_cons, List.length_append] at hk; omega
      · rintro (h | ⟨b', hb', hc⟩)
        · exfalso; simp only [encs_cons, List.length_append] at h; omega
        · exfalso
          rw [hget] at hb'
          have hbe : t[i-1]'(by simp [he] at hlt; omega) = b' := by simpa using hb'
          have : K.cont b' = true := by
            have := ht (t[i-1]'(by simp [he] at hlt; omega)) (List.getElem_mem _)
            rwa [hbe] at this
          simp [this] at hc
    · -- at or after the end of the first char: shift
      have hge : (K.enc c).length ≤ i := Nat.le_of_not_lt hlt
      have hi' : i - (K.enc c).length ≤ (encs K cs).length := by
        simp only [encs_cons, List.length_append] at hi; omega
      have IH := ih (i - (K.enc c).length) hi'
      constructor
      · rintro ⟨k, hk⟩
        cases k with
        | zero => simp at hk; exact absurd hk h0
        | succ k =>
          simp only [List.take_succ_cons, encs_cons, List.length_append] at hk
          have hb2 : Boundary K cs (i - (K.enc c).length) := ⟨k, by omega⟩
          rcases IH.mp hb2 with h | ⟨b', hb', hc⟩
          · left; simp only [encs_cons, List.length_append]; omega
          · right; refine ⟨b', ?_, hc⟩
            simp only [encs_cons]
            rw [List.getElem?_append_right hge]; exact hb'
      · intro h
        have : ByteTest K (encs K cs) (i - (K.enc c).length) := by
          rcases h with h | ⟨b', hb', hc⟩
          · left; simp only [encs_cons, List.length_append] at h; omega
          · right; refine ⟨b', ?_, hc⟩
            simp only [encs_cons] at hb'
            rw [List.getElem?_append_right hge] at hb'; exact hb'
        obtain ⟨k, hk⟩ := IH.mpr this
        exact ⟨k + 1, by simp only [List.take_succ_cons, encs_cons, List.length_append]; omega⟩

theorem encs_append (as bs : List Nat) : encs K (as ++ bs) = encs K as ++ encs K bs := by
  simp [encs]

theorem enc_ne_nil (c : Nat) : K.enc c ≠ [] := by
  obtain ⟨b, t, he, _⟩ := K.ok c
  simp [he]

/-- byte-level prefix between two encoded strings is a prefix in whole characters -/
theorem prefix_chars : ∀ (ps ds : List Nat), encs K ps <+: encs K ds →
    ∃ m, encs K ps = encs K (ds.take m) := by
  intro ps
  induction ps with
  | nil => intro ds _; exact ⟨0, by simp⟩
  | cons p ps ih =>
    intro ds h
    obtain ⟨b, t, hep, hb, _, hlen⟩ := K.ok p
    cases ds with
    | nil =>
      exfalso
      have := List.IsPrefix.length_le h
      simp [hep] at this
    | cons d ds =>
      obtain ⟨b', t', hed, _, _, hlen'⟩ := K.ok d
      simp only [encs_cons] at h
      -- same first byte
      have hbb : b = b' := by
        obtain ⟨r, hr⟩ := h
        rw [hep, hed] at hr
        simp only [List.cons_append, List.cons.injEq] at hr
        exact hr.1
      subst hbb
      have hl : (K.enc p).length = (K.enc d).length := by
        rw [hep, hed]; simp only [List.length_cons]; omega
      -- hence the first characters are the same bytes
      have hpd : K.enc p = K.enc d := by
        obtain ⟨r, hr⟩ := h
        have h1 := congrArg (List.take (K.enc p).length) hr
        rw [List.append_assoc, List.take_left' rfl, hl, List.take_left' rfl] at h1
        exact h1
      have hrest : encs K ps <+: encs K ds := by
        rw [hpd] at h
        exact (List.prefix_append_right_inj _).mp h
      obtain ⟨m, hm⟩ := ih ds hrest
      exact ⟨m + 1, by simp [encs_cons, hpd, hm]⟩

theorem drop_encs_take (cs : List Nat) (k : Nat) :
    (encs K cs).drop (encs K (cs.take k)).length = encs K (cs.drop k) := by
  have h : encs K cs = encs K (cs.take k) ++ encs K (cs.drop k) := by
    rw [← encs_append, List.take_append_drop]
  conv => lhs; arg 2; rw [h]
  exact List.drop_left' rfl

theorem take_encs_take (cs : List Nat) (k : Nat) :
    (encs K cs).take (encs K (cs.take k)).length = encs K (cs.take k) := by
  have h : encs K cs = encs K (cs.take k) ++ encs K (cs.drop k) := by
    rw [← encs_append, List.take_append_drop]
  conv => lhs; arg 2; rw [h]
  exact List.take_left' rfl

theorem match_on_boundaries (cs ps : List Nat) (hps : ps ≠ []) (i : Nat)
    (hm : encs K ps <+: (encs K cs).drop i) :
    Boundary K cs i ∧ Boundary K cs (i + (encs K ps).length) := by
  -- first byte of the needle is a lead byte sitting at position i of the haystack
  obtain ⟨p, ps', rfl⟩ : ∃ p ps', ps = p :: ps' := by
    cases ps with
    | nil => exact absurd rfl hps
    | cons a b => exact ⟨a, b, rfl⟩
  obtain ⟨b, t, hep, hb, _, _⟩ := K.ok p
  have hlt : i < (encs K cs).length := by
    have := List.IsPrefix.length_le hm
    simp only [encs_cons, hep, List.length_append, List.length_cons, List.length_drop] at this
    omega
  have hget : (encs K cs)[i]? = some b := by
    obtain ⟨r, hr⟩ := hm
    have : ((encs K cs).drop i)[0]? = some b := by
      rw [← hr]; simp [encs_cons, hep]
    simpa using this
  have hbi : Boundary K cs i :=
    (boundary_iff K cs i (by omega)).mpr (Or.inr ⟨b, hget, hb⟩)
  refine ⟨hbi, ?_⟩
  obtain ⟨k, hk⟩ := hbi
  subst hk
  rw [drop_encs_take] at hm
  obtain ⟨m, hm'⟩ := prefix_chars K (p :: ps') (cs.drop k) hm
  refine ⟨k + m, ?_⟩
  rw [hm']
  have : cs.take (k + m) = cs.take k ++ (cs.drop k).take m := by
    rw [List.take_add]
  rw [this, encs_append, List.length_append]

end Sync

/-! ## Real UTF-8 -/

open Konst Konst.Spec.Utf8 Konst.Utf8 Konst.Chr

/-- length of a sequence as determined by its lead byte -/
def leadLen (b : Nat) : Nat :=
  if b < 0x80 then 1 else if b < 0xE0 then 2 else if b < 0xF0 then 3 else 4

theorem isCont_iff (b : Nat) : isCont b = true ↔ 0x80 ≤ b ∧ b < 0xC0 := by
  simp [isCont]

theorem isCont_false_iff (b : Nat) : isCont b = false ↔ b < 0x80 ∨ 0xC0 ≤ b := by
  rw [← Bool.not_eq_true, isCont_iff]; omega

theorem enc_ok (c : Nat) : ∃ b t, enc c = b :: t ∧ isCont b = false ∧
    (∀ x ∈ t, isCont x = true) ∧ t.length + 1 = leadLen b := by
  unfold enc
  by_cases h1 : c < 0x80
  · refine ⟨c, [], by simp [h1], (isCont_false_iff _).mpr (Or.inl h1), by simp, by simp [leadLen, h1]⟩
  by_cases h2 : c < 0x800
  · refine ⟨0xC0 + c / 64, [0x80 + c % 64], by simp [h1, h2], (isCont_false_iff _).mpr (by omega), ?_, ?_⟩
    · intro x hx; simp at hx; subst hx; exact (isCont_iff _).mpr (by omega)
    · have : ¬ (0xC0 + c / 64 < 0x80) := by omega
      have : 0xC0 + c / 64 < 0xE0 := by omega
      simp [leadLen, *]
  by_cases h3 : c < 0x10000
  · refine ⟨0xE0 + c / 4096, [0x80 + c / 64 % 64, 0x80 + c % 64], by simp [h1, h2, h3],
      (isCont_false_iff _).mpr (by omega), ?_, ?_⟩
    · intro x hx; simp at hx; rcases hx with rfl | rfl <;> exact (isCont_iff _).mpr (by omega)
    · have : ¬ (0xE0 + c / 4096 < 0x80) := by omega
      have : ¬ (0xE0 + c / 4096 < 0xE0) := by omega
      have : 0xE0 + c / 4096 < 0xF0 := by omega
      simp [leadLen, *]
  · refine ⟨0xF0 + c / 262144, [0x80 + c / 4096 % 64, 0x80 + c / 64 % 64, 0x80 + c % 64],
      by simp [h1, h2, h3], (isCont_false_iff _).mpr (by omega), ?_, ?_⟩
    · intro x hx; simp at hx; rcases hx with rfl | rfl | rfl <;> exact (isCont_iff _).mpr (by omega)
    · have : ¬ (0xF0 + c / 262144 < 0x80) := by omega
      have : ¬ (0xF0 + c / 262144 < 0xE0) := by omega
      have : ¬ (0xF0 + c / 262144 < 0xF0) := by omega
      simp [leadLen, *]

/-- UTF-8 as a self-synchronising code (holds for every `Nat`, scalar value or not) -/
def utf8Code : Code := ⟨enc, isCont, leadLen, enc_ok⟩

theorem sync_encs (cs : List Nat) : Sync.encs utf8Code cs = encs cs := rfl
theorem sync_boundary (cs : List Nat) (i : Nat) : Sync.Boundary utf8Code cs i ↔ IsBoundary cs i := Iff.rfl

@[simp] theorem encs_nil : encs [] = [] := rfl
@[simp] theorem encs_cons (c : Nat) (cs : List Nat) : encs (c :: cs) = enc c ++ encs cs := by
  simp [encs]
theorem encs_append (as bs : List Nat) : encs (as ++ bs) = encs as ++ encs bs := by
  simp [encs]

theorem enc_length (c : Nat) : (enc c).length = clen c := by
  unfold enc clen; split <;> (try split) <;> (try split) <;> rfl

theorem clen_pos (c : Nat) : 0 < clen c := by unfold clen; split <;> (try split) <;> (try split) <;> omega
theorem clen_le_four (c : Nat) : clen c ≤ 4 := by unfold clen; split <;> (try split) <;> (try split) <;> omega
theorem enc_ne_nil (c : Nat) : enc c ≠ [] := Sync.enc_ne_nil utf8Code c

theorem isScalar_lt (c : Nat) (h : isScalar c = true) : c < 0x110000 := by
  simp [isScalar] at h; omega

/-- every byte of an encoded value below 2^21 (in particular of a scalar value) is a byte -/
theorem enc_lt_256 (c : Nat) (h : c < 0x200000) : ∀ b ∈ enc c, b < 256 := by
  intro b hb
  unfold enc at hb
  split at hb
  · simp at hb; omega
  split at hb
  · simp at hb; omega
  split at hb
  · simp at hb; omega
  · simp at hb; omega

theorem encs_lt_256 (cs : List Nat) (hs : ∀ c ∈ cs, isScalar c = true) : ∀ b ∈ encs cs, b < 256 := by
  intro b hb
  simp only [encs, List.mem_flatMap] at hb
  obtain ⟨c, hc, hb⟩ := hb
  exact enc_lt_256 c (by have := isScalar_lt c (hs c hc); omega) b hb

/-- `(b as i8) >= -0x40` says "not a continuation byte" -/
theorem byteIsCharBoundary_eq (b : Nat) (h : b < 256) : byteIsCharBoundary b = !isCont b := by
  by_cases hc : isCont b = true
  · have := (isCont_iff b).mp hc
    have : ¬ b < 128 := by omega
    simp only [hc, Bool.not_true, byteIsCharBoundary, asI8, this, if_false, decide_eq_false_iff_not]
    omega
  · have hc' : isCont b = false := by simpa using hc
    have := (isCont_false_iff b).mp hc'
    by_cases hb : b < 128
    · simp only [hc', Bool.not_false, byteIsCharBoundary, asI8, hb, if_true, decide_eq_true_eq]; omega
    · simp only [hc', Bool.not_false, byteIsCharBoundary, asI8, hb, if_false, decide_eq_true_eq]; omega

/-! ### boundaries -/

theorem encs_take_append_drop (cs : List Nat) (k : Nat) :
    encs (cs.take k) ++ encs (cs.drop k) = encs cs := by
  rw [← encs_append, List.take_append_drop]

theorem boundary_zero (cs : List Nat) : IsBoundary cs 0 := ⟨0, by simp⟩
theorem boundary_len (cs : List Nat) : IsBoundary cs (encs cs).length := ⟨cs.length, by simp⟩

/-- a boundary cuts the bytes into the encodings of a prefix and the matching suffix of the chars -/
theorem boundary_split (cs : List Nat) (i : Nat) (h : IsBoundary cs i) :
    ∃ k, i = (encs (cs.take k)).length ∧ (encs cs).take i = encs (cs.take k) ∧
      (encs cs).drop i = encs (cs.drop k) := by
  obtain ⟨k, hk⟩ := h
  exact ⟨k, hk, by rw [hk]; exact Sync.take_encs_take utf8Code cs k,
    by rw [hk]; exact Sync.drop_encs_take utf8Code cs k⟩

theorem boundary_le (cs : List Nat) (i : Nat) (h : IsBoundary cs i) : i ≤ (encs cs).length := by
  obtain ⟨k, hk⟩ := h
  rw [← encs_take_append_drop cs k, List.length_append]; omega

/-- the executable list of boundaries enumerates exactly the boundaries -/
theorem mem_boundaries_iff : ∀ (cs : List Nat) (i : Nat), i ∈ boundaries cs ↔ IsBoundary cs i := by
  intro cs
  induction cs with
  | nil =>
    intro i
    simp only [boundaries, List.mem_singleton]
    constructor
    · rintro rfl; exact boundary_zero []
    · rintro ⟨k, hk⟩; simpa using hk
  | cons c cs ih =>
    intro i
    simp only [boundaries, List.mem_cons, List.mem_map]
    constructor
    · rintro (rfl | ⟨j, hj, rfl⟩)
      · exact boundary_zero _
      · obtain ⟨k, hk⟩ := (ih j).mp hj
        exact ⟨k + 1, by simp only [List.take_succ_cons, encs_cons, List.length_append]; omega⟩
    · rintro ⟨k, hk⟩
      cases k with
      | zero => left; simpa using hk
      | succ k =>
        right
        simp only [List.take_succ_cons, encs_cons, List.length_append] at hk
        exact ⟨(encs (cs.take k)).length, (ih _).mpr ⟨k, rfl⟩, by omega⟩

/-- the strict byte test of the model is the abstract byte test, for any byte string -/
theorem isCharBoundaryBytes_iff_byteTest (s : List Nat) (hb : ∀ b ∈ s, b < 256) (i : Nat) :
    isCharBoundaryBytes s i = true ↔ i ≤ s.length ∧ Sync.ByteTest utf8Code s i := by
  unfold isCharBoundaryBytes Sync.ByteTest
  by_cases h1 : i = s.length
  · subst h1; simp
  by_cases h2 : i < s.length
  · have hget : s[i]? = some s[i] := List.getElem?_eq_getElem h2
    have hD : s.getD i 0 = s[i] := by simp [List.getD, hget]
    have hlt := hb s[i] (List.getElem_mem h2)
    rw [hD, byteIsCharBoundary_eq _ hlt]
    have hne : (i == s.length) = false := by simpa using h1
    simp only [hne, h2, decide_true, Bool.true_and, Bool.false_or, false_or, h1, hget,
      Option.some.injEq, exists_eq_left']
    show (!isCont s[i]) = true ↔ i ≤ s.length ∧ isCont s[i] = false
    cases isCont s[i] <;> simp <;> omega
  · have : ¬ i ≤ s.length := by omega
    simp [h1, h2, this]

/-- (i) for a valid string with chars `cs`, the model's `is_char_boundary` is exactly
    "is a prefix sum of character lengths" — for every `i`, beyond the length included -/
theorem boundary_iff (cs : List Nat) (hs : ∀ c ∈ cs, isScalar c = true) (i : Nat) :
    isCharBoundary (encs cs) i = true ↔ IsBoundary cs i := by
  unfold isCharBoundary
  rw [isCharBoundaryBytes_iff_byteTest _ (encs_lt_256 cs hs)]
  constructor
  · rintro ⟨hle, ht⟩
    exact (Sync.boundary_iff utf8Code cs i hle).mpr ht
  · intro h
    have hle := boundary_le cs i h
    exact ⟨hle, (Sync.boundary_iff utf8Code cs i hle).mp h⟩

/-- the forgiving test = "at or beyond the end, or passes the strict test" (any byte string) -/
theorem forgiving_eq (s : List Nat) (i : Nat) :
    isCharBoundaryForgiving s i = (decide (i ≥ s.length) || isCharBoundaryBytes s i) := by
  unfold isCharBoundaryForgiving isCharBoundaryBytes
  by_cases h1 : i ≥ s.length
  · simp [h1]
  · have h2 : i < s.length := by omega
    have h3 : ¬ i = s.length := by omega
    simp [h1, h2, h3]

theorem forgiving_iff (cs : List Nat) (hs : ∀ c ∈ cs, isScalar c = true) (i : Nat) :
    isCharBoundaryForgiving (encs cs) i = true ↔ i ≥ (encs cs).length ∨ IsBoundary cs i := by
  rw [forgiving_eq, Bool.or_eq_true, decide_eq_true_eq, ← boundary_iff cs hs]; rfl

/-! ### (ii) cutting at boundaries -/

theorem take_valid (cs : List Nat) (hs : ∀ c ∈ cs, isScalar c = true) (i : Nat)
    (h : IsBoundary cs i) : Valid ((encs cs).take i) := by
  obtain ⟨k, _, ht, _⟩ := boundary_split cs i h
  exact ⟨cs.take k, fun c hc => hs c (List.mem_of_mem_take hc), ht⟩

theorem drop_valid (cs : List Nat) (hs : ∀ c ∈ cs, isScalar c = true) (i : Nat)
    (h : IsBoundary cs i) : Valid ((encs cs).drop i) := by
  obtain ⟨k, _, _, hd⟩ := boundary_split cs i h
  exact ⟨cs.drop k, fun c hc => hs c (List.mem_of_mem_drop hc), hd⟩

/-- prefix sums are monotone in the number of characters -/
theorem encs_take_length_mono (cs : List Nat) {m k : Nat} (h : m ≤ k) :
    (encs (cs.take m)).length ≤ (encs (cs.take k)).length := by
  have : cs.take m = (cs.take k).take m := by rw [List.take_take, Nat.min_eq_left h]
  rw [this, ← encs_take_append_drop (cs.take k) m, List.length_append]; omega

/-- slicing between two boundaries gives the encoding of a run of the string's characters -/
theorem cut_chars (cs : List Nat) (i j : Nat) (hi : IsBoundary cs i) (hj : IsBoundary cs j) :
    ∃ ds, (∀ c ∈ ds, c ∈ cs) ∧ ((encs cs).drop i).take (j - i) = encs ds := by
  obtain ⟨k, hk, _, hd⟩ := boundary_split cs i hi
  obtain ⟨m, hm⟩ := hj
  rw [hd]
  by_cases hkm : k ≤ m
  · have ht : cs.take m = cs.take k ++ (cs.drop k).take (m - k) := by
      have : m = k + (m - k) := by omega
      conv => lhs; rw [this, List.take_add]
    have hb : IsBoundary (cs.drop k) (j - i) := ⟨m - k, by
      rw [hm, hk, ht, encs_append, List.length_append]; omega⟩
    obtain ⟨n, _, ht2, _⟩ := boundary_split (cs.drop k) (j - i) hb
    exact ⟨(cs.drop k).take n, fun c hc => List.mem_of_mem_drop (List.mem_of_mem_take hc), ht2⟩
  · have := encs_take_length_mono cs (m := m) (k := k) (by omega)
    have h0 : j - i = 0 := by omega
    exact ⟨[], by simp, by simp [h0]⟩

/-- (ii) slicing a valid string at two boundaries is valid (an empty string when `j < i`) -/
theorem cut_valid (cs : List Nat) (hs : ∀ c ∈ cs, isScalar c = true) (i j : Nat)
    (hi : IsBoundary cs i) (hj : IsBoundary cs j) : Valid (((encs cs).drop i).take (j - i)) := by
  obtain ⟨ds, hds, h⟩ := cut_chars cs i j hi hj
  exact ⟨ds, fun c hc => hs c (hds c hc), h⟩

/-- (iii) a non-empty needle made of whole characters that occurs byte-wise at offset `i` of a
    string starts and ends on character boundaries of that string (the safety comment of
    `konst/src/string.rs` as a theorem; no scalar-value hypothesis is needed) -/
theorem match_on_boundaries (cs ps : List Nat) (hps : ps ≠ []) (i : Nat)
    (hm : encs ps <+: (encs cs).drop i) :
    IsBoundary cs i ∧ IsBoundary cs (i + (encs ps).length) :=
  Sync.match_on_boundaries utf8Code cs ps hps i hm

/-! ### (iv) bit arithmetic of `encode_utf8` / `string_to_usv` -/

theorem or_eq_add (a y n : Nat) (ha : a % 2 ^ n = 0) (hy : y < 2 ^ n) : a ||| y = a + y := by
  have h : a = (a / 2 ^ n) <<< n := by
    rw [Nat.shiftLeft_eq]
    have := Nat.div_add_mod a (2 ^ n)
    rw [ha, Nat.add_zero, Nat.mul_comm] at this
    exact this.symm
  rw [h, ← Nat.shiftLeft_add_eq_or_of_lt hy]

theorem and3F (x : Nat) : x &&& 0x3F = x % 64 := Nat.and_two_pow_sub_one_eq_mod x 6
theorem and1F (x : Nat) : x &&& 0x1F = x % 32 := Nat.and_two_pow_sub_one_eq_mod x 5
theorem and7F (x : Nat) : x &&& 0x7F = x % 128 := Nat.and_two_pow_sub_one_eq_mod x 7
theorem andF (x : Nat) : x &&& 0xF = x % 16 := Nat.and_two_pow_sub_one_eq_mod x 4
theorem and7 (x : Nat) : x &&& 0x7 = x % 8 := Nat.and_two_pow_sub_one_eq_mod x 3

theorem asBytes_mk (l : List Nat) (n : Nat) (hl : l.length = 4) (hn : n ≤ 4) :
    (Utf8Encoded.mk l n).asBytes = l.take n := by
  simp [Utf8Encoded.asBytes, Slice.sliceUpTo, Slice.sliceUpToImpl, overflowingSub, hl, hn, View.apply]

/-- (iv) `encode_utf8` with its shifts, masks, `|` and `as u8` truncations produces the RFC 3629
    bytes, for every value below 2^21 — in particular for every `char` -/
theorem encodeUtf8_eq_enc (c : Nat) (hc : c < 0x200000) : (encodeUtf8 c).asBytes = enc c := by
  unfold encodeUtf8 enc
  by_cases h1 : c < 0x80
  · have h1' : c ≤ 127 := by omega
    rw [if_pos h1', if_pos h1, asBytes_mk _ _ rfl (by omega)]
    simp only [asU8, List.take_succ_cons, List.take_zero]
    rw [Nat.mod_eq_of_lt (by omega)]
  have h1' : ¬ c ≤ 127 := by omega
  rw [if_neg h1', if_neg h1]
  by_cases h2 : c < 0x800
  · have h2' : c ≤ 0x7FF := by omega
    rw [if_pos h2', if_pos h2, asBytes_mk _ _ rfl (by omega)]
    simp only [asU8, and3F, Nat.shiftRight_eq_div_pow, List.take_succ_cons, List.take_zero, Nat.reducePow]
    rw [or_eq_add 192 _ 6 (by decide) (by omega), or_eq_add 128 _ 6 (by decide) (by omega)]
    have e1 : c / 64 % 256 = c / 64 := by omega
    have e2 : c % 64 % 256 = c % 64 := by omega
    rw [e1, e2]
  have h2' : ¬ c ≤ 0x7FF := by omega
  rw [if_neg h2', if_neg h2]
  by_cases h3 : c < 0x10000
  · have h3' : c ≤ 0xFFFF := by omega
    rw [if_pos h3', if_pos h3, asBytes_mk _ _ rfl (by omega)]
    simp only [asU8, and3F, Nat.shiftRight_eq_div_pow, List.take_succ_cons, List.take_zero, Nat.reducePow]
    rw [or_eq_add 224 _ 5 (by decide) (by omega), or_eq_add 128 _ 6 (by decide) (by omega),
      or_eq_add 128 _ 6 (by decide) (by omega)]
    have e1 : c / 4096 % 256 = c / 4096 := by omega
    have e2 : c / 64 % 64 % 256 = c / 64 % 64 := by omega
    have e3 : c % 64 % 256 = c % 64 := by omega
    rw [e1, e2, e3]
  · have h3' : ¬ c ≤ 0xFFFF := by omega
    rw [if_neg h3', if_neg h3, asBytes_mk _ _ rfl (by omega)]
    simp only [asU8, and3F, Nat.shiftRight_eq_div_pow, List.take_succ_cons, List.take_zero, Nat.reducePow]
    rw [or_eq_add 240 _ 4 (by decide) (by omega), or_eq_add 128 _ 6 (by decide) (by omega),
      or_eq_add 128 _ 6 (by decide) (by omega), or_eq_add 128 _ 6 (by decide) (by omega)]
    have e1 : c / 262144 % 256 = c / 262144 := by omega
    have e2 : c / 4096 % 64 % 256 = c / 4096 % 64 := by omega
    have e3 : c / 64 % 64 % 256 = c / 64 % 64 := by omega
    have e4 : c % 64 % 256 = c % 64 := by omega
    rw [e1, e2, e3, e4]

/-- (iv) the hand-written decoder inverts the encoding, for all four lengths -/
theorem stringToUsv_enc (c : Nat) (hc : c < 0x200000) : stringToUsv (enc c) = c := by
  unfold enc
  by_cases h1 : c < 0x80
  · rw [if_pos h1]; rfl
  rw [if_neg h1]
  by_cases h2 : c < 0x800
  · rw [if_pos h2]
    simp only [stringToUsv, and1F, and7F, Nat.shiftLeft_eq, Nat.reducePow]
    rw [or_eq_add _ _ 6 (by omega) (by omega)]
    omega
  rw [if_neg h2]
  by_cases h3 : c < 0x10000
  · rw [if_pos h3]
    simp only [stringToUsv, andF, and3F, Nat.shiftLeft_eq, Nat.reducePow]
    have e1 : (224 + c / 4096) % 16 = c / 4096 := by omega
    have e2 : (128 + c / 64 % 64) % 64 = c / 64 % 64 := by omega
    have e3 : (128 + c % 64) % 64 = c % 64 := by omega
    rw [e1, e2, e3, or_eq_add (c / 4096 * 4096) (c / 64 % 64 * 64) 12 (by omega) (by omega),
      or_eq_add (c / 4096 * 4096 + c / 64 % 64 * 64) (c % 64) 6 (by omega) (by omega)]
    omega
  · rw [if_neg h3]
    simp only [stringToUsv, and7, and3F, Nat.shiftLeft_eq, Nat.reducePow]
    have e1 : (240 + c / 262144) % 8 = c / 262144 := by omega
    have e2 : (128 + c / 4096 % 64) % 64 = c / 4096 % 64 := by omega
    have e3 : (128 + c / 64 % 64) % 64 = c / 64 % 64 := by omega
    have e4 : (128 + c % 64) % 64 = c % 64 := by omega
    rw [e1, e2, e3, e4,
      or_eq_add (c / 262144 * 262144) (c / 4096 % 64 * 4096) 18 (by omega) (by omega),
      or_eq_add (c / 262144 * 262144 + c / 4096 % 64 * 4096) (c / 64 % 64 * 64) 12 (by omega) (by omega),
      or_eq_add (c / 262144 * 262144 + c / 4096 % 64 * 4096 + c / 64 % 64 * 64) (c % 64) 6
        (by omega) (by omega)]
    omega

theorem enc_injective (c d : Nat) (hc : c < 0x200000) (hd : d < 0x200000) (h : enc c = enc d) :
    c = d := by
  rw [← stringToUsv_enc c hc, ← stringToUsv_enc d hd, h]

/-- the reference decoder reads back one encoded scalar value -/
theorem decodeOne_enc (c : Nat) (hc : isScalar c = true) (r : List Nat) :
    decodeOne (enc c ++ r) = some (c, r) := by
  have hlt := isScalar_lt c hc
  have hsc : c < 0xD800 ∨ 0xE000 ≤ c := by simp [isScalar] at hc; omega
  unfold enc
  by_cases h1 : c < 0x80
  · rw [if_pos h1]; simp [decodeOne, h1]
  rw [if_neg h1]
  by_cases h2 : c < 0x800
  · rw [if_pos h2]
    have a1 : ¬ (0xC0 + c / 64 < 0x80) := by omega
    have a2 : ¬ (0xC0 + c / 64 < 0xC0) := by omega
    have a3 : 0xC0 + c / 64 < 0xE0 := by omega
    have c1 : isCont (0x80 + c % 64) = true := (isCont_iff _).mpr (by omega)
    have v : (0xC0 + c / 64 - 0xC0) * 64 + (0x80 + c % 64 - 0x80) = c := by omega
    have v2 : 0x80 ≤ c := by omega
    simp only [List.cons_append, List.nil_append, decodeOne, a1, a2, a3, c1, v, v2, if_true, if_false]
  rw [if_neg h2]
  by_cases h3 : c < 0x10000
  · rw [if_pos h3]
    have a1 : ¬ (0xE0 + c / 4096 < 0x80) := by omega
    have a2 : ¬ (0xE0 + c / 4096 < 0xC0) := by omega
    have a3 : ¬ (0xE0 + c / 4096 < 0xE0) := by omega
    have a4 : 0xE0 + c / 4096 < 0xF0 := by omega
    have c1 : isCont (0x80 + c / 64 % 64) = true := (isCont_iff _).mpr (by omega)
    have c2 : isCont (0x80 + c % 64) = true := (isCont_iff _).mpr (by omega)
    have v : (0xE0 + c / 4096 - 0xE0) * 4096 + (0x80 + c / 64 % 64 - 0x80) * 64 + (0x80 + c % 64 - 0x80) = c := by
      omega
    have v2 : (decide (0x800 ≤ c) && isScalar c) = true := by simp [hc]; omega
    simp only [List.cons_append, List.nil_append, decodeOne, a1, a2, a3, a4, c1, c2, v, v2,
      Bool.and_self, if_true, if_false]
  · rw [if_neg h3]
    have a1 : ¬ (0xF0 + c / 262144 < 0x80) := by omega
    have a2 : ¬ (0xF0 + c / 262144 < 0xC0) := by omega
    have a3 : ¬ (0xF0 + c / 262144 < 0xE0) := by omega
    have a4 : ¬ (0xF0 + c / 262144 < 0xF0) := by omega
    have a5 : 0xF0 + c / 262144 < 0xF8 := by omega
    have c1 : isCont (0x80 + c / 4096 % 64) = true := (isCont_iff _).mpr (by omega)
    have c2 : isCont (0x80 + c / 64 % 64) = true := (isCont_iff _).mpr (by omega)
    have c3 : isCont (0x80 + c % 64) = true := (isCont_iff _).mpr (by omega)
    have v : (0xF0 + c / 262144 - 0xF0) * 262144 + (0x80 + c / 4096 % 64 - 0x80) * 4096 +
        (0x80 + c / 64 % 64 - 0x80) * 64 + (0x80 + c % 64 - 0x80) = c := by omega
    have v2 : (decide (0x10000 ≤ c) && isScalar c) = true := by simp [hc]; omega
    simp only [List.cons_append, List.nil_append, decodeOne, a1, a2, a3, a4, a5, c1, c2, c3, v, v2,
      Bool.and_self, if_true, if_false]

theorem decodeAll_go_encs : ∀ (cs : List Nat) (_ : ∀ c ∈ cs, isScalar c = true) (fuel : Nat)
    (acc : List Nat), (encs cs).length ≤ fuel →
    decodeAll.go fuel (encs cs) acc = some (acc.reverse ++ cs) := by
  intro cs
  induction cs with
  | nil => intro _ fuel acc _; cases fuel <;> simp [decodeAll.go]
  | cons c cs ih =>
    intro hs fuel acc hf
    have hne : enc c ++ encs cs ≠ [] := by simp [enc_ne_nil]
    have hl : 0 < (enc c).length := List.length_pos_iff.mpr (enc_ne_nil c)
    rw [encs_cons] at hf ⊢
    rw [List.length_append] at hf
    cases fuel with
    | zero => omega
    | succ fuel =>
      cases hE : enc c ++ encs cs with
      | nil => exact absurd hE hne
      | cons x xs =>
        rw [← hE]
        unfold decodeAll.go
        rw [hE]
        simp only []
        rw [← hE, decodeOne_enc c (hs c (by simp))]
        simp only []
        rw [ih (fun d hd => hs d (by simp [hd])) fuel (c :: acc) (by omega)]
        simp

/-- the reference decoder recovers the scalar values of a valid string (so they are unique) -/
theorem decodeAll_encs (cs : List Nat) (hs : ∀ c ∈ cs, isScalar c = true) :
    decodeAll (encs cs) = some cs := by
  unfold decodeAll
  rw [decodeAll_go_encs cs hs _ [] (Nat.le_refl _)]; simp

theorem encs_injective (cs ds : List Nat) (hs : ∀ c ∈ cs, isScalar c = true)
    (hd : ∀ c ∈ ds, isScalar c = true) (h : encs cs = encs ds) : cs = ds := by
  have := decodeAll_encs cs hs
  rw [h, decodeAll_encs ds hd] at this
  exact (Option.some.inj this).symm

/-! ### (v) next / previous char boundary -/

/-- the `loop` of `__find_next_char_boundary` stops at the first position after `p` that passes
    the forgiving test -/
theorem findNext_eq (s : List Nat) : ∀ (n p q : Nat), q = p + 1 + n →
    (∀ j, p < j → j < q → isCharBoundaryForgiving s j = false) →
    isCharBoundaryForgiving s q = true → findNextCharBoundary s p = q := by
  intro n
  induction n with
  | zero =>
    intro p q hq _ ht
    subst hq
    rw [findNextCharBoundary, dif_pos ht]
  | succ n ih =>
    intro p q hq hf ht
    have h1 : isCharBoundaryForgiving s (p + 1) = false := hf (p + 1) (by omega) (by omega)
    rw [findNextCharBoundary, dif_neg (by simp [h1])]
    exact ih (p + 1) q (by omega) (fun j hj hjq => hf j (by omega) hjq) ht

/-- the `while` loop of `__find_prev_char_boundary` stops at the last position `≤ p` that passes -/
theorem findPrevLoop_eq (s : List Nat) (q : Nat) (ht : isCharBoundaryForgiving s q = true) :
    ∀ (p : Nat), q ≤ p → (∀ j, q < j → j ≤ p → isCharBoundaryForgiving s j = false) →
    findPrevLoop s p = some q := by
  intro p
  induction p with
  | zero =>
    intro hq _
    have : q = 0 := by omega
    subst this
    simp [findPrevLoop, ht]
  | succ p ih =>
    intro hq hf
    by_cases he : q = p + 1
    · subst he; simp [findPrevLoop, ht]
    · have h1 : isCharBoundaryForgiving s (p + 1) = false := hf (p + 1) (by omega) (by omega)
      simp only [findPrevLoop, h1, Bool.false_eq_true, if_false]
      exact ih (by omega) (fun j hj hjp => hf j hj (by omega))

/-- boundaries of `c :: cs` are `0` or at least `clen c` -/
theorem boundary_cons_cases (c : Nat) (cs : List Nat) (j : Nat) (h : IsBoundary (c :: cs) j) :
    j = 0 ∨ (enc c).length ≤ j := by
  obtain ⟨k, hk⟩ := h
  cases k with
  | zero => left; simpa using hk
  | succ k => right; simp only [List.take_succ_cons, encs_cons, List.length_append] at hk; omega

/-- boundaries of `cs ++ [c]` are the end or at most the start of the last character -/
theorem boundary_snoc_cases (cs : List Nat) (c : Nat) (j : Nat) (h : IsBoundary (cs ++ [c]) j) :
    j = (encs (cs ++ [c])).length ∨ j ≤ (encs cs).length := by
  obtain ⟨k, hk⟩ := h
  by_cases hkl : k ≤ cs.length
  · right
    rw [List.take_append_of_le_length hkl] at hk
    rw [hk, ← encs_take_append_drop cs k, List.length_append]; omega
  · left
    rw [List.take_of_length_le (by simp; omega)] at hk
    exact hk

/-- (v) on a valid non-empty string `__find_next_char_boundary(bytes, 0)` is the length of the
    first character -/
theorem findNext_first (c : Nat) (cs : List Nat) (hs : ∀ d ∈ c :: cs, isScalar d = true) :
    findNextCharBoundary (enc c ++ encs cs) 0 = (enc c).length := by
  have hl : 0 < (enc c).length := List.length_pos_iff.mpr (enc_ne_nil c)
  rw [← encs_cons]
  refine findNext_eq _ ((enc c).length - 1) 0 _ (by omega) ?_ ?_
  · intro j hj hjq
    rw [← Bool.not_eq_true, forgiving_iff _ hs]
    rintro (hge | hb)
    · rw [encs_cons, List.length_append] at hge; omega
    · rcases boundary_cons_cases c cs j hb with h | h <;> omega
  · exact (forgiving_iff _ hs _).mpr (Or.inr ⟨1, by simp⟩)

/-- (v) on a valid non-empty string `__find_prev_char_boundary(bytes, len)` is the start of the
    last character (and never underflows) -/
theorem findPrev_last (cs : List Nat) (c : Nat) (hs : ∀ d ∈ cs ++ [c], isScalar d = true) :
    findPrevCharBoundary (encs cs ++ enc c) (encs cs ++ enc c).length = some (encs cs).length := by
  have hl : 0 < (enc c).length := List.length_pos_iff.mpr (enc_ne_nil c)
  have he : encs cs ++ enc c = encs (cs ++ [c]) := by rw [encs_append]; simp
  unfold findPrevCharBoundary
  rw [he]
  have hlen : (encs (cs ++ [c])).length = (encs cs).length + (enc c).length := by
    rw [← he, List.length_append]
  refine findPrevLoop_eq _ _ ?_ _ (by omega) ?_
  · exact (forgiving_iff _ hs _).mpr (Or.inr ⟨cs.length, by simp⟩)
  · intro j hj hjp
    rw [← Bool.not_eq_true, forgiving_iff _ hs]
    rintro (hge | hb)
    · omega
    · rcases boundary_snoc_cases cs c j hb with h | h <;> omega

end Konst.Lemmas.Utf8
