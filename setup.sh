#!/bin/sh
# Build the framework from files on disk only (offline): the Lean project (all theorems + the
# compiled driver) and the Rust harness against /repo's current working tree.
set -e
cd "$(dirname "$0")"
mkdir -p build evidence replays
export CARGO_NET_OFFLINE=true
export CARGO_TARGET_DIR="$PWD/build/cargo"
# second tie: build the translator, expand /repo, regenerate lean/KonstVerif/Extracted/Gen
./translator/run.sh
(cd lean && lake build)
cp -n /repo/Cargo.lock harness/Cargo.lock 2>/dev/null || true
(cd harness && cargo build --offline --quiet)
echo "setup ok"
